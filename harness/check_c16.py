"""C16: Earth model and geodetic transforms are one coherent ellipsoidal geometry - the exact corner + cross-consistency.

Leg M  EarthFrame.tla at the 12 cardinal points (lat -90/0/90 x lon 0/90/180/-90): the NED frame matrix the code builds
       (Rz(lon) Ry(-90 - lat)) satisfies the geometry stated independently of that Euler sequence - DownIsMinusNormal, EastIsZCrossUp,
       NorthCompletes, Proper - and its consequences EarthRateInNed, ParityLaw (mirroring in the equatorial plane),
       EastIndependentOfLatitude.
Leg R  the 12 points on the real functions: mat_en_from_ll (scalar, array, stacked) == the signed permutation matrix; lla_to_ecef
       on the coordinate axis of the normal at distance A + h (equator, exactly) / A sqrt(1 - E2) + h (poles); ecef_to_lla back;
       rate_n == RATE x the model's direction; gravity_n == (0, 0, gravity); gravitation_ecef along minus the normal.
       Bit-exact parity at seeded latitudes: gravity, the radii, the north Earth-rate component and the vertical gravitation are even in
       latitude, the vertical Earth-rate component is odd; the compiled gravity copy equals earth.gravity.
       Numeric predicates at seeded general points, computed by the harness and labelled as such (no external oracle): closed forms of
       the model's statements (down = -normal, east = (-sin lon, cos lon, 0), proper), geodetic <-> ECEF round trips, the columns of
       C_en times the principal radii against central differences of lla_to_ecef (the axes ARE the partial derivatives), perturb_lla /
       compute_lla_difference / lla_to_ned agree to first order (measured order 2), the curvature matrix against the measured rotation
       of the NED frame under displacement, gravitation_ecef == C_en gravity_n - RATE^2 (x, y, 0), rate_n == C_en' (0, 0, RATE).
"""
import math
import numpy as np
from . import tlc, filt, exc

INV = ["Proper", "DownIsMinusNormal", "EastIsZCrossUp", "NorthCompletes", "EarthRateInNed", "ParityLaw", "EastIndependentOfLatitude"]
LAT = {3: -90.0, 0: 0.0, 1: 90.0}
LON = {0: 0.0, 1: 90.0, 2: 180.0, 3: -90.0}


def exact_points(m, pts):
    earth, T = m["pyins"].earth, m["transform"]
    probs = []
    b_axis = earth.A * math.sqrt(1 - earth.E2)
    for latq, lonq, C, normal, rate_dir in pts:
        lat, lon = LAT[latq], LON[lonq]
        Ci = np.array(C, float); nrm = np.array(normal, float); rd = np.array(rate_dir, float)
        tag = "(lat %g, lon %g)" % (lat, lon)
        try:
            got = T.mat_en_from_ll(lat, lon)
            if not np.allclose(got, Ci, rtol=0, atol=4e-16):
                probs.append("mat_en_from_ll%s is not the NED frame of the model: max |d| = %.3g" % (tag, np.abs(got - Ci).max())); continue
            st = T.mat_en_from_ll(np.array([lat, 37.0]), np.array([lon, -5.0]))
            if st.shape != (2, 3, 3) or not np.allclose(st[0], got, rtol=0, atol=4e-16):
                probs.append("mat_en_from_ll(arrays)[0] differs from the scalar form at %s" % tag)
            for h in (0.0, 1000.0, -50.0):
                r = np.asarray(T.lla_to_ecef([lat, lon, h]), float)
                radius = (earth.A if latq == 0 else b_axis) + h
                if not np.allclose(r, radius * nrm, rtol=1e-15, atol=1e-9):
                    probs.append("lla_to_ecef%s at altitude %g = %s, expected %.6f along %s" % (tag, h, r.tolist(), radius, normal)); break
                back = np.asarray(T.ecef_to_lla(radius * nrm), float)
                ok = abs(back[0] - lat) <= 1e-9 and abs(back[2] - h) <= 1e-6
                if latq == 0:                # at the poles the longitude is arbitrary
                    dl = (back[1] - lon) % 360.0
                    ok = ok and min(dl, 360.0 - dl) <= 1e-9
                if not ok:
                    probs.append("ecef_to_lla of the point %s, altitude %g returns %s" % (tag, h, back.tolist())); break
            rn_ = np.asarray(earth.rate_n(lat), float)
            if not np.allclose(rn_, earth.RATE * rd, rtol=0, atol=1e-20):
                probs.append("rate_n(%g) = %s, expected RATE x %s" % (lat, rn_.tolist(), rate_dir))
            g = float(earth.gravity(lat, 100.0))
            gn = np.asarray(earth.gravity_n(lat, 100.0), float)
            if not np.array_equal(gn, [0.0, 0.0, g]):
                probs.append("gravity_n(%g, 100) = %s is not (0, 0, gravity)" % (lat, gn.tolist()))
            ge = np.asarray(earth.gravitation_ecef([lat, lon, 100.0]), float)
            cent = earth.RATE ** 2 * (earth.A + 100.0) if latq == 0 else 0.0
            if not np.allclose(ge, -(g + cent) * nrm, rtol=1e-13, atol=1e-12):
                probs.append("gravitation_ecef%s = %s, expected %.9f along minus the normal" % (tag, ge.tolist(), g + cent))
        except Exception as e:
            if not exc.entered_pyins(e):
                raise
            probs.append("%s: the library raised %s" % (tag, exc.describe(e)))
    return probs


def _numeric_predicates(m, seed):
    earth, T = m["pyins"].earth, m["transform"]
    ni = m["pyins"]._numba_integrate
    rng = np.random.RandomState((seed * 17 + 9) % (2 ** 31))
    out = []
    # ---- bit-exact parity and copies
    ok_par = ok_copy = True
    for _ in range(200):
        lat, alt = float(rng.uniform(0.01, 89.9)), float(rng.uniform(-500, 20000))
        rp, rm = earth.principal_radii(lat, alt), earth.principal_radii(-lat, alt)
        ok_par = ok_par and all(float(a) == float(b) for a, b in zip(rp, rm)) and float(earth.gravity(lat, alt)) == float(earth.gravity(-lat, alt))
        a, b = np.asarray(earth.rate_n(lat)), np.asarray(earth.rate_n(-lat))
        ok_par = ok_par and a[0] == b[0] and a[1] == b[1] == 0.0 and a[2] == -b[2]
        ga, gb = np.asarray(earth.gravitation_ecef([lat, 20.0, alt])), np.asarray(earth.gravitation_ecef([-lat, 20.0, alt]))
        ok_par = ok_par and np.allclose(ga * [1, 1, -1], gb, rtol=1e-14, atol=1e-14)
        try:
            g_compiled = float(ni.gravity(lat, alt))          # a compiled function: its frames do not appear on a traceback
        except Exception as e:
            raise exc.LibraryRaised("_numba_integrate.gravity(%r, %r): %s: %s" % (lat, alt, type(e).__name__, e))
        ok_copy = ok_copy and abs(g_compiled - float(earth.gravity(lat, alt))) <= 4e-15 * 10
    out.append(("parity_in_latitude", bool(ok_par), "radii, gravity, north Earth rate even; vertical Earth rate odd; gravitation mirrored"))
    out.append(("compiled_gravity_copy", bool(ok_copy), "the integrator's compiled gravity equals earth.gravity (4e-14)"))
    w = dict(frame=0.0, trip=0.0, deriv=0.0, first=0.0, curv=0.0, grav=0.0, rate=0.0, diff=0.0)
    orders = []
    for k in range(150):
        lat = float(rng.uniform(-85, 85)) if k % 5 else float(rng.choice([84.9, -84.9, 0.0, 1e-6, -60.0]))
        lon = float(rng.uniform(-180, 180)) if k % 7 else float(rng.choice([179.9999, -179.9999, 0.0, 180.0]))
        alt = float(rng.uniform(-400, 20000))
        C = T.mat_en_from_ll(lat, lon)
        sl, cl, so, co = math.sin(math.radians(lat)), math.cos(math.radians(lat)), math.sin(math.radians(lon)), math.cos(math.radians(lon))
        w["frame"] = max(w["frame"], np.abs(C[:, 2] + [cl * co, cl * so, sl]).max(), np.abs(C[:, 1] - [-so, co, 0.0]).max(),
                         np.abs(C @ C.T - np.eye(3)).max(), abs(np.linalg.det(C) - 1), np.abs(C[:, 0] - np.cross(C[:, 1], C[:, 2])).max())
        r = np.asarray(T.lla_to_ecef([lat, lon, alt]), float)
        back = np.asarray(T.ecef_to_lla(r), float)
        dl = (back[1] - lon) % 360.0
        w["trip"] = max(w["trip"], abs(back[0] - lat) * 111e3, min(dl, 360 - dl) * 111e3 * cl, abs(back[2] - alt))
        # the axes are the partial derivatives of ECEF position; their lengths are the principal radii
        rn, re, rp = (float(x) for x in earth.principal_radii(lat, alt))
        h = 1e-4                               # degrees
        d_lat = (np.asarray(T.lla_to_ecef([lat + h, lon, alt])) - np.asarray(T.lla_to_ecef([lat - h, lon, alt]))) / (2 * math.radians(h))
        d_lon = (np.asarray(T.lla_to_ecef([lat, lon + h, alt])) - np.asarray(T.lla_to_ecef([lat, lon - h, alt]))) / (2 * math.radians(h))
        d_alt = (np.asarray(T.lla_to_ecef([lat, lon, alt + 1.0])) - np.asarray(T.lla_to_ecef([lat, lon, alt - 1.0]))) / 2.0
        w["deriv"] = max(w["deriv"], np.abs(d_lat - rn * C[:, 0]).max() / rn, np.abs(d_lon - rp * C[:, 1]).max() / re, np.abs(d_alt + C[:, 2]).max())
        # metre perturbation, metre difference and local NED coordinates agree to first order
        d0 = np.array([300.0, -200.0, 50.0])
        res = []
        for sc in (1.0, 0.25):
            p = T.perturb_lla([lat, lon, alt], d0 * sc)
            ned = np.asarray(T.lla_to_ned(np.array([p]), [lat, lon, alt]), float)[0]
            dif = np.asarray(T.compute_lla_difference(p, [lat, lon, alt]), float)
            res.append(max(np.abs(ned - d0 * sc).max(), np.abs(dif - d0 * sc).max()))
        w["first"] = max(w["first"], res[0] / np.abs(d0).max())
        if res[1] > 1e-7:
            orders.append(int(round(math.log(res[0] / res[1], 4.0))))
        w["diff"] = max(w["diff"], np.abs(np.asarray(T.compute_lla_difference([lat, lon, alt], [lat, lon, alt]))).max())
        # curvature matrix = rotation of the NED frame per metre of displacement
        F = np.asarray(earth.curvature_matrix(lat, alt), float)
        for dn in (np.array([50.0, 0, 0]), np.array([0, 50.0, 0])):
            p = T.perturb_lla([lat, lon, alt], dn)
            m_ = T.perturb_lla([lat, lon, alt], -dn)
            R = C.T @ T.mat_en_from_ll(p[0], p[1])
            R2 = C.T @ T.mat_en_from_ll(m_[0], m_[1])
            th = 0.25 * np.array([(R - R.T)[2, 1] - (R2 - R2.T)[2, 1], (R - R.T)[0, 2] - (R2 - R2.T)[0, 2], (R - R.T)[1, 0] - (R2 - R2.T)[1, 0]])
            w["curv"] = max(w["curv"], np.abs(th - F @ dn).max() / (50.0 / rn))
        g_e = np.asarray(earth.gravitation_ecef([lat, lon, alt]), float)
        want = C @ np.asarray(earth.gravity_n(lat, alt), float) - earth.RATE ** 2 * np.array([r[0], r[1], 0.0])
        w["grav"] = max(w["grav"], np.abs(g_e - want).max())
        w["rate"] = max(w["rate"], np.abs(np.asarray(earth.rate_n(lat), float) - C.T @ [0.0, 0.0, earth.RATE]).max())
    out.append(("ned_frame_closed_forms", w["frame"] <= 1e-14, "max deviation %.3g" % w["frame"]))
    out.append(("geodetic_ecef_round_trip", w["trip"] <= 1e-4, "max deviation %.3g m" % w["trip"]))
    out.append(("axes_are_partial_derivatives_with_principal_radii", w["deriv"] <= 1e-7, "max relative deviation %.3g" % w["deriv"]))
    out.append(("perturbation_difference_ned_agree", w["first"] <= 3e-3 and (not orders or min(orders) >= 2) and w["diff"] == 0.0,
                "relative residual %.3g for a 300 m displacement, measured orders %s, self-difference %.3g" % (w["first"], sorted(set(orders)), w["diff"])))
    out.append(("curvature_matrix_is_frame_rotation", w["curv"] <= 1e-3, "max deviation %.3g of the rotation per 50 m" % w["curv"]))
    out.append(("gravitation_is_gravity_minus_centrifugal", w["grav"] <= 1e-12, "max deviation %.3g m/s^2" % w["grav"]))
    out.append(("earth_rate_is_polar_axis_in_ned", w["rate"] <= 1e-18, "max deviation %.3g rad/s" % w["rate"]))
    return out


def check(rep, pid, tier, seed):
    rep.assumptions += [
        "decided exactly: the 12 cardinal points (signed permutation matrices, positions on the coordinate axes), bit-exact parity in latitude",
        "general points are judged by numeric predicates computed by the harness (closed forms of the model's statements, central differences, cross-consistency "
        "between representations; tolerances >= 10x the measured maxima) - labelled `numeric_predicates` in the evidence, not TLC-decided",
        "no external ellipsoid or gravity reference is used: 'agrees with the closed-form WGS-84 ellipsoid' is decided at the cardinal points only (semi-axes A and A sqrt(1 - E2))",
    ]
    r = tlc.run_tlc("EarthFrame", dict(spec="Spec", invariants=INV), workers=2, timeout=600, heap="1g", coverage=True)
    rep.add_tlc("EarthFrame[12 cardinal points]", r)
    if not r.ok:
        rep.machinery("leg M: EarthFrame violates %s: %s" % (r.violated, r.trace[-1][1] if r.trace else "?"))
    rep.exhaustive = r.ok
    pts = []
    for line in r.prints:
        v = tlc.parse_value(line)
        if isinstance(v, tuple) and v and v[0] == "EARTH":
            pts.append((v[1], v[2], [list(x) for x in v[3]], list(v[4]), list(v[5])))
    if len(pts) != 12:
        rep.machinery("EarthFrame printed %d points, expected 12" % len(pts))
    m = filt._imports()
    for p in exact_points(m, pts):
        rep.violation("C16 %s" % p, dict(mode="exact"), key=p[:30])
    n_rounds = 1 if tier == "quick" else 12
    allp = []
    for k in range(n_rounds):
        preds = numeric_predicates(m, seed + 1000 * k)
        allp = preds if not allp else allp
        for name, holds, detail in preds:
            if not holds:
                rep.violation("C16 numeric predicate %s does not hold: %s" % (name, detail), dict(mode="numeric", name=name, seed=seed + 1000 * k), key=name)
    rep.extra["numeric_predicates"] = [dict(name=n, holds=bool(h), detail=d) for n, h, d in allp]
    rep.traces += len(pts) + 150 * n_rounds
    rep.evaluations += len(pts) + len(allp) * n_rounds
    for p in pts:
        rep.nontrivial.add((p[0], p[1]))
    rep.rule = "12 cardinal points (exact) + 9 numeric predicates on 150-200 seeded general points per round"
    rep.sample("lat 0, lon 90: C_en = [[0,-1,0],[0,0,-1],[1,0,0]] - north is the polar axis, east is -x, down is -y")


def replay(rep, pid, case):
    m = filt._imports()
    if case.get("mode") == "numeric":
        for name, holds, detail in numeric_predicates(m, case["seed"]):
            if not holds and name == case.get("name"):
                rep.violation("C16 replay: numeric predicate %s: %s" % (name, detail), case)
        return
    r = tlc.run_tlc("EarthFrame", dict(spec="Spec", invariants=INV), workers=2)
    pts = []
    for line in r.prints:
        v = tlc.parse_value(line)
        if isinstance(v, tuple) and v and v[0] == "EARTH":
            pts.append((v[1], v[2], [list(x) for x in v[3]], list(v[4]), list(v[5])))
    for p in exact_points(m, pts):
        rep.violation("C16 replay: %s" % p, case)


def numeric_predicates(m, seed):
    """An exception raised by the library while a predicate is evaluated is an observation (a failing predicate); one that never
    entered pyins is a defect of the harness."""
    try:
        return _numeric_predicates(m, seed)
    except Exception as e:
        if not exc.entered_pyins(e):
            raise
        return [("library_raised", False, exc.describe(e))]
