"""The API table of pyins (declarative part -> spec/ApiTable.tla) and the adapters that bind each entry to the real callable.

Entry: (name, params, res, random, mut)
  params  list of (kind, forms, canonical form);  forms: s scalar, l list, a ndarray, k stacked (row 0 = the object), S Series,
          D DataFrame, n None
  res     list of result kinds ("arr" numeric array/scalar, "tab:<schema>" table with a documented schema, object kinds, "none")
  random  takes an integer seed
  mut     1-based parameter positions the callable may modify (documented stateful receivers, models handed to a filter)
"""
import numpy as np

V = ("l", "a", "k")          # vector forms
SC = ("s", "a", "k", "S")    # scalar forms


def P(kind, forms, canon=None):
    return (kind, tuple(forms), canon or forms[0])


TABLE = [
    # ------------------------------------------------------------------ earth
    ("earth.principal_radii", [P("lat", SC), P("alt", SC)], ["arr", "arr", "arr"], False, []),
    ("earth.gravity", [P("lat", SC), P("alt", SC)], ["arr"], False, []),
    ("earth.gravity_n", [P("lat", ("s", "a", "k")), P("alt", ("s", "a", "k"))], ["arr"], False, []),
    ("earth.gravitation_ecef", [P("lla", V, "a")], ["arr"], False, []),
    ("earth.curvature_matrix", [P("lat", ("s", "a", "k")), P("alt", ("s", "a", "k"))], ["arr"], False, []),
    ("earth.rate_n", [P("lat", ("s", "a", "k"))], ["arr"], False, []),
    # ------------------------------------------------------------------ transform
    ("transform.lla_to_ecef", [P("lla", V, "a")], ["arr"], False, []),
    ("transform.ecef_to_lla", [P("ecef", V, "a")], ["arr"], False, []),
    ("transform.lla_to_ned", [P("traj", ("D", "a"), "D"), P("lla", ("n", "l", "a"), "a")], ["tab:ned_or_array"], False, []),
    ("transform.perturb_lla", [P("lla", V, "a"), P("vec3", V, "a")], ["arr"], False, []),
    ("transform.translate_trajectory[traj]", [P("traj", ("D",)), P("vec3", ("l", "a"), "a")], ["tab:trajectory"], False, []),
    ("transform.translate_trajectory[pva]", [P("pvar", ("S",)), P("vec3", ("l", "a"), "a")], ["tab:pvar"], False, []),
    ("transform.compute_lla_difference", [P("lla", V + ("S",), "a"), P("lla", V + ("S",), "a")], ["arr"], False, []),
    ("transform.resample_state", [P("traj", ("D",)), P("times", ("l", "a"), "a")], ["tab:trajectory_any_index"], False, []),
    ("transform.compute_state_difference[traj]", [P("traj", ("D",)), P("traj", ("D",))], ["tab:trajectory_error"], False, []),
    ("transform.compute_state_difference[pva]", [P("pva", ("S",)), P("pva", ("S",))], ["tab:pva_error"], False, []),
    ("transform.smooth_rotations", [P("rot", ("a",)), P("dt", ("s",)), P("ratio", ("s",))], ["rot", "arr"], False, []),
    ("transform.smooth_state", [P("traj", ("D",)), P("ratio", ("s",))], ["tab:trajectory_any_index"], False, []),
    ("transform.mat_en_from_ll", [P("lat", ("s", "a", "k")), P("lon", ("s", "a", "k"))], ["arr"], False, []),
    ("transform.mat_from_rph", [P("rph", V, "a")], ["arr"], False, []),
    ("transform.mat_to_rph", [P("mat", ("a", "k"))], ["arr"], False, []),
    # ------------------------------------------------------------------ util
    ("util.mm_prod", [P("stack", ("a", "l")), P("stack", ("a", "l"))], ["arr"], False, []),
    ("util.mm_prod_symmetric", [P("stack", ("a", "l")), P("stack", ("a", "l"))], ["arr"], False, []),
    ("util.mv_prod", [P("stack", ("a", "l")), P("vecs", ("a", "l"))], ["arr"], False, []),
    ("util.skew_matrix", [P("vec3", V, "a")], ["arr"], False, []),
    ("util.compute_rms", [P("traj", ("D", "a"))], ["arr"], False, []),
    ("util.to_180_range", [P("angle", ("s", "l", "a", "S", "D"), "a")], ["arr"], False, []),
    ("util.Bunch", [P("traj", ("D",))], ["bunch"], False, []),
    # ------------------------------------------------------------------ kalman
    ("kalman.compute_process_matrices", [P("F", ("a",)), P("Qm", ("a",)), P("dt", ("s",))], ["arr", "arr"], False, []),
    ("kalman.correct", [P("kx", ("a",)), P("kP", ("a",)), P("kz", ("a", "S"), "a"), P("kH", ("a",)), P("kR", ("a",))], ["arr", "arr", "arr"], False, []),
    # ------------------------------------------------------------------ strapdown
    ("strapdown.compute_increments_from_imu[rate]", [P("imu", ("D",))], ["tab:increments"], False, []),
    ("strapdown.compute_increments_from_imu[increment]", [P("imu", ("D",))], ["tab:increments"], False, []),
    ("strapdown.Integrator", [P("pva", ("S",))], ["integrator"], False, []),
    ("strapdown.Integrator.integrate", [P("integrator", ("o",)), P("incs", ("D",))], ["tab:trajectory"], False, [1]),
    ("strapdown.Integrator.predict", [P("integrator", ("o",)), P("incrow", ("S",))], ["tab:pva"], False, []),
    ("strapdown.Integrator.get_pva", [P("integrator", ("o",))], ["tab:pva"], False, []),
    ("strapdown.Integrator.get_time", [P("integrator", ("o",))], ["arr"], False, []),
    ("strapdown.Integrator.set_pva", [P("integrator", ("o",)), P("pva", ("S",))], ["none"], False, [1]),
    # ------------------------------------------------------------------ error_model
    ("error_model.InsErrorModel", [P("flag", ("s",))], ["errmodel"], False, []),
    ("error_model.InsErrorModel.system_matrices[traj]", [P("errmodel", ("o",)), P("traj", ("D",))], ["arr", "arr", "arr"], False, []),
    ("error_model.InsErrorModel.system_matrices[pva]", [P("errmodel", ("o",)), P("pva", ("S",))], ["arr", "arr", "arr"], False, []),
    ("error_model.InsErrorModel.transform_to_output[traj]", [P("errmodel", ("o",)), P("traj", ("D",))], ["arr"], False, []),
    ("error_model.InsErrorModel.transform_to_output[pva]", [P("errmodel", ("o",)), P("pva", ("S",))], ["arr"], False, []),
    ("error_model.InsErrorModel.transform_to_internal", [P("errmodel", ("o",)), P("pva", ("S",))], ["arr"], False, []),
    ("error_model.InsErrorModel.correct_pva", [P("errmodel", ("o",)), P("pva", ("S",)), P("xerr", ("a",))], ["tab:pva"], False, []),
    ("error_model.InsErrorModel.position_error_jacobian", [P("errmodel", ("o",)), P("pva", ("S",)), P("vec3", ("n", "l", "a"), "a")], ["arr"], False, []),
    ("error_model.InsErrorModel.ned_velocity_error_jacobian", [P("errmodel", ("o",)), P("pva", ("S",))], ["arr"], False, []),
    ("error_model.InsErrorModel.body_velocity_error_jacobian", [P("errmodel", ("o",)), P("pva", ("S",))], ["arr"], False, []),
    ("error_model.propagate_errors", [P("traj", ("D",)), P("pvaerr", ("S", "n"), "S"), P("vec3", ("n", "l", "a"), "a"), P("vec3", ("n", "l", "a"), "a")],
     ["tab:trajectory_error", "tab:states"], False, []),
    # ------------------------------------------------------------------ measurements
    ("measurements.Position", [P("traj", ("D",)), P("sd", ("s",)), P("vec3", ("n", "l", "a"), "a")], ["meas"], False, []),
    ("measurements.NedVelocity", [P("traj", ("D",)), P("sd", ("s",)), P("vec3", ("n", "l", "a"), "a")], ["meas"], False, []),
    ("measurements.BodyVelocity", [P("bodyvel", ("D",)), P("sd", ("s",))], ["meas"], False, []),
    ("measurements.Measurement.compute_matrices", [P("meas", ("o",)), P("pvar", ("S",)), P("errmodel", ("o",))], ["arr", "arr", "arr"], False, []),
    # ------------------------------------------------------------------ inertial_sensor
    ("inertial_sensor.EstimationModel", [P("sdvec", ("n", "l", "a"), "a"), P("sdvec", ("n", "l", "a"), "a")], ["estmodel"], False, []),
    ("inertial_sensor.EstimationModel.output_matrix", [P("estmodel", ("o",)), P("vec3", V, "a")], ["arr"], False, []),
    ("inertial_sensor.EstimationModel.reset_estimates", [P("estmodel", ("o",))], ["none"], False, [1]),
    ("inertial_sensor.EstimationModel.update_estimates", [P("estmodel", ("o",)), P("xest", ("l", "a"), "a")], ["none"], False, [1]),
    ("inertial_sensor.EstimationModel.get_estimates", [P("estmodel", ("o",))], ["tab:estimates"], False, []),
    ("inertial_sensor.EstimationModel.correct_increments", [P("estmodel", ("o",)), P("incs", ("D", "S"), "D")], ["tab:same_as_input"], False, []),
    ("inertial_sensor.Parameters", [P("sdvec", ("n", "l", "a"), "a"), P("sdvec", ("n", "l", "a"), "a")], ["params"], True, []),
    ("inertial_sensor.Parameters.from_EstimationModel", [P("estmodel", ("o",))], ["params"], True, []),
    ("inertial_sensor.Parameters.apply", [P("params", ("o",)), P("imu", ("D",))], ["tab:readings"], False, [1]),
    ("inertial_sensor.apply_imu_parameters", [P("imu", ("D",)), P("params", ("o",)), P("params", ("o",))], ["tab:imu"], False, [2, 3]),
    # ------------------------------------------------------------------ sim
    ("sim.generate_imu[lla]", [P("times", ("l", "a"), "a"), P("traj", ("D",))], ["tab:trajectory", "tab:imu"], False, []),
    ("sim.generate_imu[velocity]", [P("times", ("l", "a"), "a"), P("traj", ("D",))], ["tab:trajectory", "tab:imu"], False, []),
    ("sim.generate_sine_velocity_motion", [P("dt", ("s",)), P("lla", ("l", "a"), "a"), P("vec3", ("l", "a"), "a")], ["tab:trajectory", "tab:imu"], False, []),
    ("sim.generate_position_measurements", [P("traj", ("D",)), P("sd", ("s",))], ["tab:position"], True, []),
    ("sim.generate_ned_velocity_measurements", [P("traj", ("D",)), P("sd", ("s",))], ["tab:ned_velocity"], True, []),
    ("sim.generate_body_velocity_measurements", [P("traj", ("D",)), P("sd", ("s",))], ["tab:body_velocity"], True, []),
    ("sim.generate_pva_error", [P("sd", ("s",)), P("sd", ("s",))], ["tab:pva_error"], True, []),
    ("sim.perturb_pva", [P("pva", ("S",)), P("pvaerr", ("S",))], ["tab:pva"], False, []),
    ("sim.Turntable", [P("lla", ("l", "a"), "a")], ["turntable"], False, []),
    ("sim.Turntable.rotate", [P("turntable", ("o",)), P("dt", ("s",))], ["none"], False, [1]),
    ("sim.Turntable.rest", [P("turntable", ("o",)), P("dt", ("s",))], ["none"], False, [1]),
    # ------------------------------------------------------------------ filters
    ("filters.run_feedback_filter", [P("pva", ("S",)), P("incs", ("D",)), P("estmodel", ("o",)), P("estmodel", ("o",)), P("meas", ("o", "n"), "o")],
     ["tab:trajectory", "tab:trajectory_error", "tab:estimates_table", "tab:estimates_table", "tab:innovations"], False, [3, 4]),
    ("filters.run_feedforward_filter", [P("traj", ("D",)), P("incs", ("D", "n"), "D"), P("estmodel", ("o",)), P("estmodel", ("o",)), P("meas", ("o", "n"), "o")],
     ["tab:trajectory", "tab:trajectory_error", "tab:estimates_table", "tab:estimates_table", "tab:innovations"], False, [3, 4]),
]

# callables that exist in the modules but are deliberately not in the table (reported as uncovered, with the reason)
EXCLUDED = {
    "sim.Turntable.generate_imu": "fails on the unchanged tree in this image for a scipy API reason (baseline always_fail test_Turntable)",
    "measurements.Measurement": "abstract base class; compute_matrices raises NotImplementedError by design (exercised through its three subclasses)",
}

SCHEMAS = {
    "trajectory": (["lat", "lon", "alt", "VN", "VE", "VD", "roll", "pitch", "heading"], "time"),
    "trajectory_any_index": (["lat", "lon", "alt", "VN", "VE", "VD", "roll", "pitch", "heading"], None),
    "pva": (["lat", "lon", "alt", "VN", "VE", "VD", "roll", "pitch", "heading"], None),
    "pvar": (["lat", "lon", "alt", "VN", "VE", "VD", "roll", "pitch", "heading", "rate_x", "rate_y", "rate_z"], None),
    "imu": (["gyro_x", "gyro_y", "gyro_z", "accel_x", "accel_y", "accel_z"], "time"),
    "increments": (["dt", "theta_x", "theta_y", "theta_z", "dv_x", "dv_y", "dv_z"], "time"),
    "trajectory_error": (["north", "east", "down", "VN", "VE", "VD", "roll", "pitch", "heading"], None),
    "pva_error": (["north", "east", "down", "VN", "VE", "VD", "roll", "pitch", "heading"], None),
    "ned": (["north", "east", "down"], None),
    "ned_or_array": (["north", "east", "down"], None),
    "position": (["lat", "lon", "alt"], "time"),
    "ned_velocity": (["VN", "VE", "VD"], "time"),
    "body_velocity": (["VX", "VY", "VZ"], "time"),
    "states": (None, None),
    "estimates": (None, None),
    "estimates_table": (None, None),
    "innovations": (None, None),
    "readings": (None, None),
    "same_as_input": (None, None),
}

DATA_KINDS = sorted({k for _, ps, _, _, _ in TABLE for k, _, _ in ps})


SCALAR_KINDS = {"lat", "lon", "alt"}


def stack_forms(kind, forms):
    """Forms in which the argument is a stack of several inputs (compared row-wise with the single-input call)."""
    out = [f for f in forms if f == "k"]
    if kind in SCALAR_KINDS and "S" in forms:
        out.append("S")
    return out


def tla_table():
    def q(s):
        return '"%s"' % s
    rows = []
    for name, ps, res, rnd, mut in TABLE:
        params = ", ".join("[kind |-> %s, forms |-> {%s}, canon |-> %s, stack |-> {%s}]" % (
            q(k), ", ".join(q(f) for f in fs), q(c), ", ".join(q(f) for f in stack_forms(k, fs))) for k, fs, c in ps)
        rows.append("  [name |-> %s,\n   params |-> <<%s>>,\n   res |-> <<%s>>, random |-> %s, mut |-> {%s}]" % (
            q(name), params, ", ".join(q(r) for r in res), "TRUE" if rnd else "FALSE", ", ".join(str(m) for m in mut)))
    schemas = ",\n  ".join("[kind |-> %s, cols |-> <<%s>>, index |-> %s]" % (
        q(k), ", ".join(q(c) for c in (cols or [])), q(idx or "")) for k, (cols, idx) in sorted(SCHEMAS.items()))
    return ("--------------------------- MODULE ApiTable ---------------------------\n"
            "(***************************************************************************)\n"
            "(* The public API of pyins: one record per public callable of the ten     *)\n"
            "(* modules (generated from harness/api_registry.py TABLE, which the check  *)\n"
            "(* compares with introspection of the modules and with this file).        *)\n"
            "(* forms: s scalar, l list, a ndarray, k stacked, S Series, D DataFrame,   *)\n"
            "(* n None, o object.  stack: the forms that hold several inputs at once.    *)\n"
            "(* mut: parameter positions the callable may modify.                      *)\n"
            "(***************************************************************************)\n"
            "DataKinds == {%s}\n\nTable == <<\n%s\n>>\n\n"
            "\\* documented column sets / index names per table kind (<<>> = depends on the arguments)\nSchemas == <<\n  %s\n>>\n"
            "=============================================================================\n"
            % (", ".join(q(k) for k in DATA_KINDS), ",\n".join(rows), schemas))
