"""C15: coning / sculling increments - the exact part: linear signals, exact polynomial algebra in the interval length.

Leg M  Coning.tla over (sensor type x integer coefficient vectors a, b, c, d of w(t) = a + b t, f(t) = c + d t): the code-shaped
       formulas, as polynomials in T with rational coefficients, equal the kinematic derivation (Bortz rotation vector; velocity increment
       in the start-of-interval frame) through T^3 (RotThroughCubic, VelThroughCubic: the only cubic discrepancy of dv is the neglected
       second-order rotation term, NeglectedIsCubic), for the rate formulas in every coefficient (RateSculExact), NoConstantTerm.
       CrossOrderSwapped = TRUE must be rejected.
Leg R  every configuration: the printed polynomials are evaluated at a dyadic T with exact fractions and compared with
       compute_increments_from_imu on a table sampled from the same signals (rate: w(0), w(T); increment: the integrals over [-T, 0] and
       [0, T]) at 1e-12; the row / stamp clause (one row per sample after the first, stamped with that sample's time, dt = the interval);
       locality on irregular multi-row tables (row k equals the result for the two-sample table k-1, k); inputs unmodified; the two
       sensor types agree on the same linear motion through T^3 (their difference has order >= 4, measured from two interval lengths and
       rounded).
The order of accuracy for general smooth signals as the interval shrinks is a limit statement and is NOT decided.
"""
import math
from fractions import Fraction as Fr
from concurrent.futures import ThreadPoolExecutor
import numpy as np
from . import tlc, filt, pool, exc
from .check_c06 import domain_module

INV = ["RotThroughCubic", "VelThroughCubic", "NeglectedIsCubic", "RateSculExact", "NoConstantTerm"]
GY = ['gyro_x', 'gyro_y', 'gyro_z']
AC = ['accel_x', 'accel_y', 'accel_z']
INC = ['dt', 'theta_x', 'theta_y', 'theta_z', 'dv_x', 'dv_y', 'dv_z']


def peval(poly, T):
    """poly: list over powers of T of 3 rationals (num, den) -> 3 floats, evaluated exactly."""
    out = []
    for i in range(3):
        s = Fr(0)
        for k, coef in enumerate(poly):
            s += Fr(coef[i][0], coef[i][1]) * Fr(T) ** k
        out.append(float(s))
    return np.array(out)


def table(m, typ, a, b, c, d, T, t0):
    pd = m["pd"]
    a, b, c, d = (np.array(v, float) for v in (a, b, c, d))
    if typ == "rate":
        g = [a, a + b * T]; f = [c, c + d * T]
    else:
        g = [a * T - b * T * T / 2, a * T + b * T * T / 2]; f = [c * T - d * T * T / 2, c * T + d * T * T / 2]
    return pd.DataFrame(np.hstack([np.array(g), np.array(f)]), index=pd.Index([t0, t0 + T], name="time"), columns=GY + AC)


def _one(m, cfg):
    S = m["strapdown"]
    probs = []
    k = cfg["k"]
    T = (0.5, 0.25, 0.125)[k % 3]
    t0 = (0.0, 345600.0, -8.0)[(k // 3) % 3]
    imu = table(m, cfg["typ"], cfg["a"], cfg["b"], cfg["c"], cfg["d"], T, t0)
    snap = imu.copy()
    out = S.compute_increments_from_imu(imu, cfg["typ"])
    if list(out.columns) != INC or len(out) != 1 or list(out.index) != [t0 + T]:
        return ["result has columns %s, index %s (expected one row stamped %r with columns %s)" % (list(out.columns), list(out.index), t0 + T, INC)]
    if float(out['dt'].iloc[0]) != T:
        probs.append("dt column is %r for an interval of %r" % (float(out['dt'].iloc[0]), T))
    th = out[INC[1:4]].values[0].astype(float); dv = out[INC[4:]].values[0].astype(float)
    eth, edv = peval(cfg["theta"], T), peval(cfg["dv"], T)
    tol = lambda e: 1e-12 * max(1.0, float(np.abs(e).max()))
    if np.abs(th - eth).max() > tol(eth):
        probs.append("rotation vector %s differs from the exact value %s of the %s formulas for w = %s + %s t, T = %s" % (th.tolist(), eth.tolist(), cfg["typ"], cfg["a"], cfg["b"], T))
    if np.abs(dv - edv).max() > tol(edv):
        probs.append("velocity increment %s differs from the exact value %s of the %s formulas for w = %s + %s t, f = %s + %s t, T = %s"
                     % (dv.tolist(), edv.tolist(), cfg["typ"], cfg["a"], cfg["b"], cfg["c"], cfg["d"], T))
    if not imu.equals(snap):
        probs.append("compute_increments_from_imu modified its argument")
    return probs


def replay_configs(m, chunk):
    out = []
    for cfg in chunk:
        try:
            probs = _one(m, cfg)
        except Exception as e:
            if not exc.entered_pyins(e):
                raise
            probs = ["the library raised " + exc.describe(e)]
        if probs:
            out.append((cfg, probs))
    return out


def structural(m, seed):
    """Row / stamp clause and locality on irregular multi-row tables; agreement of the two sensor types through T^3."""
    pd = m["pd"]; S = m["strapdown"]
    rng = np.random.RandomState((seed * 13 + 1) % (2 ** 31))
    probs = []
    for k in range(40):
        n = int(rng.randint(2, 9))
        dts = rng.choice([0.5, 0.25, 0.125, 1.0], size=n - 1)
        t0 = float(rng.choice([0.0, 1234.5, 345600.0, -16.0]))
        idx = t0 + np.hstack([0.0, np.cumsum(dts)])
        vals = np.round(rng.randn(n, 6) * 4) / 4
        imu = pd.DataFrame(vals, index=pd.Index(idx, name="time") if k % 4 else idx, columns=GY + AC)
        if k % 5 == 0:
            imu = imu[AC + GY]                      # label order is not part of the contract
        for typ in ("rate", "increment"):
            out = S.compute_increments_from_imu(imu, typ)
            if len(out) != n - 1 or list(out.index) != list(idx[1:]) or list(out.columns) != INC:
                probs.append("%s: %d samples give %d rows indexed %s (expected %d rows stamped with the samples after the first)" % (typ, n, len(out), list(out.index)[:3], n - 1)); break
            if not np.array_equal(out['dt'].values, np.diff(idx)):
                probs.append("%s: dt column %s is not the sampling interval %s" % (typ, out['dt'].values.tolist(), np.diff(idx).tolist())); break
            for j in range(1, n):
                sub = S.compute_increments_from_imu(imu.iloc[j - 1:j + 1], typ)
                if not np.array_equal(sub.values[0], out.values[j - 1]):
                    probs.append("%s: row %d of the result differs from the result for the two-sample table (%d, %d): an increment depends on more than its own and the previous sample" % (typ, j, j - 1, j)); break
            if not np.isfinite(out.values).all():
                probs.append("%s: non-finite increments" % typ)
    # the two sensor types describe the same linear motion: their results agree through T^3
    orders = []
    for k in range(12):
        a, b, c, d = (np.round(rng.randn(3) * 3) for _ in range(4))
        diff = []
        for T in (0.25, 0.125):
            r = S.compute_increments_from_imu(table(m, "rate", a, b, c, d, T, 0.0), "rate").values[0, 1:]
            i = S.compute_increments_from_imu(table(m, "increment", a, b, c, d, T, 0.0), "increment").values[0, 1:]
            diff.append(float(np.abs(r - i).max()))
        if diff[1] > 1e-13:
            orders.append(int(round(math.log2(diff[0] / diff[1]))))
    if orders and min(orders) < 4:
        probs.append("rate-type and increment-type results for the same linear motion differ at order %d in the interval length (expected >= 4)" % min(orders))
    return probs, orders


def check(rep, pid, tier, seed):
    rep.assumptions += [
        "decided: signals that are linear in time with integer coefficient vectors, interval lengths 1/2, 1/4, 1/8 s (exact polynomial algebra; float results compared at 1e-12)",
        "NOT decided: the order of accuracy for general smooth signals as the interval shrinks (a limit statement)",
        "the increment-type cross terms are exact through T^3 for EQUAL neighbouring intervals, which is what the derivation (and the model) assumes",
    ]
    dom = domain_module(tier, seed)
    r = tlc.run_tlc("Coning", dict(spec="Spec", invariants=INV, constants=dict(CrossOrderSwapped=False)), workers=16, timeout=3600, heap="4g",
                    coverage=True, extra_files={"MeasDomain.tla": dom})
    rep.add_tlc("Coning[2 sensor types x |Vels|^4 coefficient vectors]", r)
    if not r.ok:
        rep.machinery("leg M: Coning violates %s: %s" % (r.violated, r.trace[-1][1] if r.trace else "?"))
    rep.exhaustive = r.ok
    small = ("--------------------------- MODULE MeasDomain ---------------------------\nEXTENDS Integers\n"
             "Vels == {<<0, 0, 0>>, <<3, -2, 1>>, <<0, 5, 0>>}\nLevers == {}\nRates == {}\n=============================================================================\n")
    s = tlc.run_tlc("Coning", dict(spec="Spec", invariants=["RotThroughCubic"], constants=dict(CrossOrderSwapped=True)), workers=4, timeout=900, heap="2g",
                    extra_files={"MeasDomain.tla": small})
    rep.add_tlc("Coning[CrossOrderSwapped = TRUE] (sensitivity)", s, note="must violate RotThroughCubic")
    if s.violated == "RotThroughCubic":
        rep.extra["spec_sensitivity"] = dict(variant="CrossOrderSwapped = TRUE", violated=s.violated, counterexample=tlc.to_jsonable(s.trace[-1][1] if s.trace else {}))
    else:
        rep.vacuity.append("the swapped-cross-product variant of the model was not rejected")
    cfgs = []
    for line in r.prints:
        v = tlc.parse_value(line)
        if isinstance(v, tuple) and v and v[0] == "CONING":
            _, typ, a, b, c, d, th, dv = v
            cfgs.append(dict(typ=typ, a=list(a), b=list(b), c=list(c), d=list(d), theta=[[list(x) for x in co] for co in th], dv=[[list(x) for x in co] for co in dv]))
    if not cfgs:
        rep.machinery("Coning printed no configuration")
        return
    for k, c_ in enumerate(cfgs):
        c_["k"] = k
    chunks = [cfgs[i::32] for i in range(32)]
    for k, status, out in pool.run_tasks(lambda m, ch: replay_configs(m, ch), chunks, init=filt._imports, task_timeout=900):
        if status != "done":
            rep.machinery("leg R: worker %s: %s" % (status, out))
            continue
        for cfg, probs in out:
            for p in probs:
                rep.violation("C15 %s" % p, dict(mode="config", cfg=cfg), key=p[:40])
    sp, orders = structural(filt._imports(), seed)
    for p in sp:
        rep.violation("C15 %s" % p, dict(mode="structural", seed=seed), key=p[:40])
    rep.extra["structural"] = dict(tables=40, rate_vs_increment_orders=orders)
    rep.traces += len(cfgs) + 40
    rep.evaluations += len(cfgs) + 40
    for c_ in cfgs:
        rep.nontrivial.add((c_["typ"], tuple(c_["a"]), tuple(c_["b"]), tuple(c_["c"]), tuple(c_["d"])))
    rep.rule = "one configuration = (sensor type, a, b, c, d) of the linear signals; each is compared in theta and dv at one dyadic interval length"
    rep.sample("rate, w = a + b t: theta = a T + b T^2/2 + (a x b) T^3/12 exactly; dv = int f + int(alpha x f) in every coefficient")


def replay(rep, pid, case):
    m = filt._imports()
    if case.get("mode") == "structural":
        for p in structural(m, case["seed"])[0]:
            rep.violation("C15 replay: %s" % p, case)
        return
    for cfg, probs in replay_configs(m, [case["cfg"]]):
        for p in probs:
            rep.violation("C15 replay: %s" % p, case)
