"""Process pool for running the real pyins code: per-task wall-clock limit, a dead worker (segfault from an
out-of-bounds numba write, os._exit) is an observation, not a crash of the check."""
import multiprocessing as mp, os, time, traceback, queue as _q

def _worker(init, fn, inq, outq):
    try:
        ctx = init() if init else None
    except Exception:
        outq.put(("initfail", None, traceback.format_exc()))
        return
    while True:
        item = inq.get()
        if item is None:
            return
        k, arg = item
        outq.put(("start", k, os.getpid()))
        try:
            outq.put(("done", k, fn(ctx, arg)))
        except BaseException as e:   # the task functions catch what they expect; this is a harness bug
            outq.put(("error", k, "%s: %s\n%s" % (type(e).__name__, e, traceback.format_exc())))


def run_tasks(fn, args, init=None, procs=None, task_timeout=120.0):
    """Yield (index, status, result) with status in done|error|timeout|died. fn(ctx, arg) runs in a worker."""
    procs = procs or min(16, os.cpu_count() or 4, max(1, len(args)))
    ctx = mp.get_context("fork")
    inq, outq = ctx.Queue(), ctx.Queue()
    pending = list(enumerate(args))
    pending.reverse()
    workers = {}
    running = {}       # pid -> (k, t_start)
    n_left = len(args)

    def spawn():
        p = ctx.Process(target=_worker, args=(init, fn, inq, outq), daemon=True)
        p.start()
        workers[p.pid] = p

    for _ in range(procs):
        spawn()
    fed = 0
    for _ in range(min(2 * procs, len(pending))):
        inq.put(pending.pop()); fed += 1
    results_seen = set()
    while n_left > 0:
        try:
            kind, k, payload = outq.get(timeout=1.0)
        except _q.Empty:
            kind = None
        now = time.time()
        if kind == "start":
            running[payload] = (k, now)
        elif kind in ("done", "error"):
            for pid, (kk, _) in list(running.items()):
                if kk == k:
                    del running[pid]
            if k not in results_seen:
                results_seen.add(k); n_left -= 1
                yield k, kind, payload
            if pending:
                inq.put(pending.pop())
        elif kind == "initfail":
            raise RuntimeError("worker initialisation failed:\n" + payload)
        # timeouts and deaths
        for pid, (k, t0) in list(running.items()):
            p = workers.get(pid)
            dead = p is not None and not p.is_alive()
            if dead or now - t0 > task_timeout:
                if p is not None and p.is_alive():
                    p.kill()
                    p.join(5)
                workers.pop(pid, None)
                del running[pid]
                if k not in results_seen:
                    results_seen.add(k); n_left -= 1
                    yield k, ("died" if dead else "timeout"), None
                spawn()
                if pending:
                    inq.put(pending.pop())
    for _ in workers:
        inq.put(None)
    for p in workers.values():
        p.join(2)
        if p.is_alive():
            p.kill()
