"""Process pool for running the real pyins code: per-task wall-clock limit, and a dead worker (segfault from an out-of-bounds
numba write, os._exit) is an observation, not a crash of the check.  The parent assigns every task to a specific worker over
that worker's own pipe, so it always knows which task a worker held when it died or hung (a shared queue loses the task a
worker took just before crashing, and a process dying inside Queue.get() can leave the queue's lock held)."""
import multiprocessing as mp, os, time, traceback
from multiprocessing.connection import wait


def _worker(init, fn, conn):
    try:
        ctx = init() if init else None
        conn.send(("ready", None, None))
    except BaseException:
        try:
            conn.send(("initfail", None, traceback.format_exc()))
        finally:
            return
    while True:
        try:
            item = conn.recv()
        except EOFError:
            return
        if item is None:
            return
        k, arg = item
        try:
            res = ("done", k, fn(ctx, arg))
        except BaseException as e:   # the task functions catch what they expect; this is a harness bug
            res = ("error", k, "%s: %s\n%s" % (type(e).__name__, e, traceback.format_exc()))
        try:
            conn.send(res)
        except Exception as e:
            conn.send(("error", k, "result could not be sent: %s" % e))


def run_tasks(fn, args, init=None, procs=None, task_timeout=120.0, init_timeout=300.0):
    """Yield (index, status, result) with status in done|error|timeout|died. fn(ctx, arg) runs in a worker."""
    procs = procs or min(16, os.cpu_count() or 4, max(1, len(args)))
    ctx = mp.get_context("fork")
    pending = list(range(len(args)))
    pending.reverse()
    workers = {}      # conn -> dict(proc, task, t0, ready)
    n_left = len(args)
    init_failures = 0

    def spawn():
        parent, child = ctx.Pipe()
        p = ctx.Process(target=_worker, args=(init, fn, child), daemon=True)
        p.start()
        child.close()
        workers[parent] = dict(proc=p, task=None, t0=time.time(), ready=False)

    def retire(conn, kill=True):
        w = workers.pop(conn)
        if kill and w["proc"].is_alive():
            w["proc"].kill()
        w["proc"].join(5)
        try:
            conn.close()
        except Exception:
            pass

    def feed(conn):
        w = workers[conn]
        if w["ready"] and w["task"] is None and pending:
            k = pending.pop()
            try:
                conn.send((k, args[k]))
                w["task"], w["t0"] = k, time.time()
            except Exception:
                pending.append(k)

    for _ in range(procs):
        spawn()
    while n_left > 0:
        if not workers:
            spawn()
        ready = wait(list(workers), timeout=1.0)
        now = time.time()
        for conn in ready:
            w = workers.get(conn)
            if w is None:
                continue
            try:
                kind, k, payload = conn.recv()
            except (EOFError, OSError):
                k = w["task"]
                retire(conn)
                if k is not None:
                    n_left -= 1
                    yield k, "died", None
                if n_left > 0:
                    spawn()
                continue
            if kind == "ready":
                w["ready"] = True
            elif kind == "initfail":
                retire(conn)
                init_failures += 1
                if init_failures > 3:
                    raise RuntimeError("worker initialisation failed:\n" + str(payload))
                spawn()
                continue
            else:
                w["task"] = None
                n_left -= 1
                yield k, kind, payload
            feed(conn)
        for conn, w in list(workers.items()):
            dead = not w["proc"].is_alive()
            limit = task_timeout if w["task"] is not None else (init_timeout if not w["ready"] else None)
            if (dead and not conn.poll()) or (limit is not None and now - w["t0"] > limit):
                k = w["task"]
                retire(conn)
                if k is not None:
                    n_left -= 1
                    yield k, ("died" if dead else "timeout"), None
                if n_left > 0:
                    spawn()
            else:
                feed(conn)
    for conn in list(workers):
        try:
            conn.send(None)
        except Exception:
            pass
    deadline = time.time() + 3
    for conn in list(workers):
        w = workers[conn]
        w["proc"].join(max(0.0, deadline - time.time()))
        retire(conn)
