"""C13: no-altitude mode keeps altitude frozen and vertical velocity zero.

Integrator part: Integrator.tla (Frozen2D, AltSource) exhaustively + replay + recorded episodes, 2D only.
Filter part: real feedback / feedforward runs in 2D mode validated by the *Trace specifications (clauses frozen2d, widths)."""
from . import check_integrator, check_filters


def check(rep, pid, tier, seed):
    check_integrator.check(rep, "C13", tier, seed)
    rule_i = rep.rule
    check_filters.check(rep, "C13", tier, seed)
    rep.rule = "integrator: " + rule_i + " | filters: " + rep.rule


def replay(rep, pid, case):
    if case.get("kind") in ("fb", "ff"):
        check_filters.replay(rep, pid, case)
    else:
        check_integrator.replay(rep, pid, case)
