"""C01: strapdown integration converges to the true navigation solution - the sentence that is an identity (CONSISTENCY of the one-step
map with the navigation equations) decided on an exact domain; convergence itself measured against an independent solution.

Leg M  StrapdownStep.tla over (altitude mode x 16 cube-group attitudes with pitch 0 x integer velocities x integer specific forces x
       integer body rates): the loop body of _numba_integrate.integrate, transcribed statement by statement as four actions and
       evaluated in dual arithmetic (first order in the interval) over FORMS that are linear in eight Earth quantities (gravity, the
       two Earth-rate components, the inverse radii, ...), has as its first-order coefficient exactly the right-hand side of the
       navigation equations written in vector form (Consistent); a zero interval changes nothing (ZeroStep); no second-order Earth
       term, odd half or gravity gradient survives (NoTaint); Frozen2D; SkewRate; GravityDown.  Two variants of the code-shaped
       side must be rejected: CoriolisOnce (Earth rate counted once in the velocity update) and TransportFlip.
Leg R  every printed configuration, at real latitudes / longitudes / altitudes:
       code side     the derivative of ONE STEP OF THE REAL Integrator with respect to the interval at zero (steps 2^-9 .. 2^-12 with
                     the exact increments of constant signals, Richardson-extrapolated three times) equals the printed table with
                     the eight Earth quantities taken from pyins.earth (principal_radii, gravity, RATE) - all 15 components (lat,
                     lon, alt, velocity, attitude matrix), tolerance = a small fraction of the smallest Earth term of the row;
       derived side  the harness's own right-hand side `rhs` (the oracle of the convergence predicates below) equals the same table:
                     the oracle is bound to the specification, not written free-hand.
Numeric predicates (computed by the harness, labelled as such, not TLC-decided):
       consistency at seeded GENERAL states (any attitude with |pitch| <= 75, |lat| <= 85, speeds to 300 m/s): measured one-step
       derivative against `rhs`;
       convergence: smooth body-frame rate / specific-force signals (sinusoids on a bias), sampled as a rate-type or increment-type
       IMU, through compute_increments_from_imu and the Integrator, at n, 2n, 4n, 8n samples over 8 s, against a DOP853 solution of
       `rhs` (rtol 1e-13).  The error on nested grids expands as c0 + c1 h + c2 h^2 + O(h^3) with vector coefficients; the property
       says c0 = 0: the error extrapolated to a zero interval from the three finest resolutions must be accounted for by the O(h^3)
       remainder (it falls eightfold per halving; a constant component does not), the error must shrink from n to 8n samples, and at
       the finest pair the distance to the exact solution is at most 8 times the change caused by halving (first-order method: 2).
"""
import numpy as np
from concurrent.futures import ThreadPoolExecutor
from . import tlc, filt, pool, exc
from .check_c06 import ANGLE, LLA, VEL, RPH

INV = ["Consistent", "ZeroStep", "NoTaint", "Frozen2D", "SkewRate", "GravityDown"]
INC = ['dt', 'theta_x', 'theta_y', 'theta_z', 'dv_x', 'dv_y', 'dv_z']
IMU = ['gyro_x', 'gyro_y', 'gyro_z', 'accel_x', 'accel_y', 'accel_z']
NINE = LLA + VEL + RPH
ROWS = ["lat", "lon", "alt", "VN", "VE", "VD"] + ["C%d%d" % (i, j) for i in (1, 2, 3) for j in (1, 2, 3)]
# per-row tolerance of the measured derivative (SI units, radians): far below the smallest Earth term of the row for a unit
# velocity (1.6e-7 rad/s, 1e-7 m/s^2, 1.6e-7 1/s; the difference between the two radii of curvature is 0.3 % of that), at least 8
# times above what the unchanged code shows on all configurations (measured: 5e-12 rad/s, 2e-11 m/s^2, 2e-11 1/s; altitude is
# limited by its own round-off, ulp(9000 m) / 2^-12 s)
TOL = np.array([5e-11, 5e-11, 1e-6] + [3e-10] * 3 + [3e-10] * 9)


def domain_module(tier, seed):
    rng = np.random.RandomState(seed + 101)
    # one aircraft speed: at 9 km the altitude-dependent part of the radii is then 5e-10 rad/s in the latitude rate (seeded change C01_1)
    vels = [(0, 0, 0), (3, -2, 1), (0, 5, 0), (-4, 1, -2), (250, -120, 3)]
    forces = [(0, 0, -7), (3, -2, 1)]
    rates = [(0, 0, 0), (1, -1, 2)]
    for _ in range(1 if tier == "quick" else 3):
        vels.append(tuple(int(v) for v in rng.randint(-6, 7, 3)))
        forces.append(tuple(int(v) for v in rng.randint(-6, 7, 3)))
        rates.append(tuple(int(v) for v in rng.randint(-3, 4, 3)))
    f = lambda s: "{" + ", ".join("<<" + ", ".join(str(x) for x in v) + ">>" for v in sorted(set(s))) + "}"
    return ("--------------------------- MODULE MeasDomain ---------------------------\nEXTENDS Integers\n"
            "Vels == %s\nLevers == {<<>>}\nRates == {<<>>}\nForces == %s\nBodyRates == %s\n"
            "=============================================================================\n" % (f(vels), f(forces), f(rates)))


# ---------------------------------------------------------------------------------------------
# measuring the real code

def skew(a):
    return np.array([[0.0, -a[2], a[1]], [a[2], 0.0, -a[0]], [-a[1], a[0], 0.0]])


def exact_dv(w, f, h):
    """The integral over [0, h] of a constant body-frame specific force resolved in the start-of-interval body frame of a body turning
    at the constant rate w: int exp([w x] s) f ds (power series)."""
    W = skew(np.asarray(w, float))
    term = np.eye(3) * h
    S = term.copy()
    for k in range(1, 30):
        term = term @ W * (h / (k + 1))
        S += term
    return S @ np.asarray(f, float)


def vec(m, r):
    C = np.asarray(m["transform"].mat_from_rph(np.asarray(r[RPH].values, float)), float)
    return np.hstack([np.deg2rad(float(r['lat'])), np.deg2rad(float(r['lon'])), float(r['alt']), np.asarray(r[VEL].values, float), C.ravel()])


def step(m, pva, alt, w, f, h, singular=False):
    """The state vector after one real step.  At pitch +-90 the Euler angles of the returned row do not determine the attitude to
    better than 1e-8 (roll and heading are not separately defined): the attitude matrix is then read from the integrator's buffer."""
    pd = m["pd"]
    it = m["strapdown"].Integrator(pva, alt)
    inc = pd.DataFrame([np.hstack([[h], np.asarray(w, float) * h, exact_dv(w, f, h)])], index=pd.Index([float(pva.name) + h], name="time"), columns=INC)
    x = vec(m, it.integrate(inc).iloc[-1])
    if singular:
        x[6:] = np.asarray(it.mat_nb[1], float).ravel()
    return x


def measured(m, pva, alt, w, f, h0=2.0 ** -9, levels=4):
    """d/dh of the state after one real step of length h, at h = 0 (Richardson table over h0, h0/2, ...)."""
    p0 = pva.copy()
    if not alt:
        p0['VD'] = 0.0
    x0 = vec(m, p0)
    singular = abs(abs(float(pva['pitch'])) - 90.0) < 1e-9
    row = [(step(m, pva, alt, w, f, h0 / 2 ** i, singular) - x0) / (h0 / 2 ** i) for i in range(levels)]
    for k in range(1, levels):
        row = [(2 ** k * row[i + 1] - row[i]) / (2 ** k - 1) for i in range(len(row) - 1)]
    return row[0]


def symbols(m, lat, alt):
    """The eight Earth quantities of StrapdownStep.tla, from the library's public Earth model (not from the integration kernel)."""
    earth = m["pyins"].earth
    rn, re, _ = (float(x) for x in earth.principal_radii(lat, alt))
    s, c = np.sin(np.deg2rad(lat)), np.cos(np.deg2rad(lat))
    return np.array([1.0, float(earth.gravity(lat, alt)), earth.RATE * c, -earth.RATE * s, 1 / rn, 1 / re, s / c / re, 1 / (re * c)])


def rhs(m, y, w, f, with_alt=True):
    """The navigation equations: y = (lat [rad], lon [rad], alt, v_ned, C_nb row-major)."""
    earth = m["pyins"].earth
    lat, alt, v, C = y[0], y[2], np.asarray(y[3:6], float), np.asarray(y[6:], float).reshape(3, 3)
    if not with_alt:
        v = np.array([v[0], v[1], 0.0])
    rn, re, _ = (float(x) for x in earth.principal_radii(np.rad2deg(lat), alt))
    Om = earth.RATE * np.array([np.cos(lat), 0.0, -np.sin(lat)])
    rho = np.array([v[1] / re, -v[0] / rn, -v[1] * np.tan(lat) / re])
    vd = C @ np.asarray(f, float) + np.array([0.0, 0.0, float(earth.gravity(np.rad2deg(lat), alt))]) - np.cross(2 * Om + rho, v)
    if not with_alt:
        vd[2] = 0.0
    Cd = C @ skew(w) - skew(Om + rho) @ C
    return np.hstack([v[0] / rn, v[1] / (re * np.cos(lat)), -v[2], vd, Cd.ravel()])


def _pva(m, cfg):
    pd = m["pd"]
    k = cfg["k"]
    vals = dict(lat=(50.0, -33.0, 0.0, 71.5, 84.9, -85.0, 12.25)[k % 7], lon=(30.0, -120.0, 179.5, 359.0)[k % 4], alt=(100.0, -50.0, 9000.0)[k % 3],
                VN=float(cfg["vel"][0]), VE=float(cfg["vel"][1]), VD=float(cfg["vel"][2]),
                roll=ANGLE[cfg["rq"]], pitch=ANGLE[cfg.get("pq", 0)], heading=ANGLE[cfg["hq"]])
    labels = NINE if k % 4 != 1 else RPH + LLA + VEL[::-1]
    return pd.Series([vals[c] for c in labels], index=labels, name=float((0, 3, 1e5)[k % 3]))


def _one(m, cfg):
    probs = []
    alt = cfg["alt"]
    pva = _pva(m, cfg)
    before = pva.copy()
    table = np.array(cfg["table"], float)                        # 15 x 9
    if table.shape != (15, 9) or np.any(table[:, 8] != 0):
        raise RuntimeError("bad table printed by the model")
    sym = symbols(m, float(pva['lat']), float(pva['alt']))
    model = table[:, :8] @ sym
    w, f = np.array(cfg["w"], float), np.array(cfg["f"], float)
    got = measured(m, pva, alt, w, f)
    if not pva.equals(before):
        probs.append("the Integrator modified the pva it was given")
    dev = np.abs(got - model)
    # (the round-off of a difference quotient grows with the magnitude differenced: velocity rows with the speed)
    sc = (1.0 + np.abs(model)) * np.array([1.0] * 3 + [1.0 + float(np.abs(cfg["vel"]).max()) / 16.0] * 3 + [1.0] * 9)
    bad = dev > TOL * sc
    if bad.any():
        i = int(np.argmax(dev / (TOL * sc)))
        terms = ", ".join("%+d %s" % (int(c), n) for c, n in zip(table[i, :8], ("", "g", "W cos(lat)", "(-W sin(lat))", "/(rn+alt)", "/(re+alt)", "tan(lat)/(re+alt)", "/((re+alt) cos(lat))")) if c)
        probs.append("the one-step map of the Integrator is not consistent with the navigation equations: d %s / dt at a zero interval is %.12g, the equations give %.12g (= %s; deviation %.3g, "
                     "tolerance %.3g) at lat %g, alt %g" % (ROWS[i], got[i], model[i], terms or "0", dev[i], TOL[i] * sc[i], pva['lat'], pva['alt']))
    # the oracle of the numeric predicates is bound to the specification: it must reproduce the printed table
    p0 = pva.copy()
    if not alt:
        p0['VD'] = 0.0
    r = rhs(m, vec(m, p0), w, f, alt)
    if np.any(np.abs(r - model) > 1e-12 * sc):
        i = int(np.argmax(np.abs(r - model) / sc))
        raise RuntimeError("the harness's right-hand side disagrees with the specification's table in row %s: %r vs %r" % (ROWS[i], r[i], model[i]))
    return probs, float(np.max(dev / (TOL * sc)))


def replay_configs(m, chunk):
    out = []
    worst = 0.0
    for cfg in chunk:
        try:
            probs, wv = _one(m, cfg)
            worst = max(worst, wv)
        except Exception as e:
            if not exc.entered_pyins(e):
                raise
            probs = ["the library raised " + exc.describe(e)]
        if probs:
            out.append((cfg, probs))
    return out, worst


# ---------------------------------------------------------------------------------------------
# numeric predicates on general inputs

def _general_state(m, seed, k):
    pd = m["pd"]
    rng = np.random.RandomState([seed, 77, k])
    fast = k % 3 == 0
    sp = 300.0 if fast else 20.0
    pva = pd.Series(dict(lat=rng.uniform(-85, 85), lon=rng.uniform(-180, 360), alt=rng.uniform(-100, 12000),
                         VN=rng.uniform(-sp, sp), VE=rng.uniform(-sp, sp), VD=rng.uniform(-10, 10),
                         roll=rng.uniform(-180, 180), pitch=rng.uniform(-75, 75), heading=rng.uniform(-180, 180)), name=float(rng.choice([0.0, 10.0, 1e4])))
    w = rng.uniform(-1.5, 1.5, 3) * (k % 2)
    f = np.array([0, 0, -9.8]) + rng.uniform(-4, 4, 3)
    return pva, w, f, bool(k % 4 != 3)


def _general_chunk(m, payload):
    seed, ks = payload
    out = []
    for k in ks:
        pva, w, f, alt = _general_state(m, seed, k)
        try:
            got = measured(m, pva, alt, w, f)
            p0 = pva.copy()
            if not alt:
                p0['VD'] = 0.0
            r = rhs(m, vec(m, p0), w, f, alt)
            sp = 1.0 + float(np.abs(pva[VEL].values.astype(float)).max())
            # round-off of the difference quotient grows with the magnitudes differenced: velocity rows with the speed
            tol = TOL * (1.0 + np.abs(r)) * np.array([1, 1, 1 + abs(pva['alt']) / 1000.0] + [sp] * 3 + [1] * 9)
            dev = np.abs(got - r)
            p = None
            if (dev > tol).any():
                i = int(np.argmax(dev / tol))
                p = ("consistency at a general state: d %s / dt of the real one-step map at a zero interval is %.12g, the navigation equations give %.12g (deviation %.3g, tolerance %.3g; "
                     "lat %.3f alt %.0f v %s rph %s, with_altitude=%s)" % (ROWS[i], got[i], r[i], dev[i], tol[i], pva['lat'], pva['alt'], np.round(pva[VEL].values.astype(float), 2).tolist(),
                                                                            np.round(pva[RPH].values.astype(float), 1).tolist(), alt))
            out.append((k, p, float(np.max(dev / tol))))
        except Exception as e:
            if not exc.entered_pyins(e):
                raise
            out.append((k, "consistency at a general state: the library raised " + exc.describe(e), 0.0))
    return out


def _signals(rng):
    w0 = rng.uniform(-0.05, 0.05, 3); w1 = rng.uniform(-0.3, 0.3, 3); a = rng.uniform(0.5, 2.0, 3); ph = rng.uniform(0, 6.28, 3)
    f0 = np.array([0, 0, -9.8]) + rng.uniform(-0.5, 0.5, 3); f1 = rng.uniform(-1.5, 1.5, 3); b = rng.uniform(0.5, 2.0, 3); ps = rng.uniform(0, 6.28, 3)
    W = lambda t: w0 + w1 * np.sin(a * t + ph)
    F = lambda t: f0 + f1 * np.sin(b * t + ps)
    IW = lambda t: w0 * t - w1 / a * np.cos(a * t + ph)          # antiderivatives: what an increment-type sensor accumulates
    IF = lambda t: f0 * t - f1 / b * np.cos(b * t + ps)
    return W, F, IW, IF


def _run(m, pva, sig, T, n, kind, irregular, rng_seed):
    pd = m["pd"]
    W, F, IW, IF = sig
    t = np.linspace(0.0, T, n + 1)
    if irregular:                                                # every interval is still halved when n doubles: jitter on the coarse grid, refined by bisection
        base = np.linspace(0.0, T, irregular + 1)
        jit = np.random.RandomState(rng_seed).uniform(-0.3, 0.3, irregular + 1) * (T / irregular)
        jit[0] = jit[-1] = 0.0
        t = base + jit
        while len(t) < n + 1:
            t = np.sort(np.hstack([t, 0.5 * (t[1:] + t[:-1])]))
    t = t + float(pva.name)
    if kind == 'rate':
        g = np.array([W(x - pva.name) for x in t]); a = np.array([F(x - pva.name) for x in t])
    else:
        tt = np.hstack([[t[0] - (t[1] - t[0])], t]) - pva.name
        g = np.array([IW(tt[i + 1]) - IW(tt[i]) for i in range(len(t))]); a = np.array([IF(tt[i + 1]) - IF(tt[i]) for i in range(len(t))])
    imu = pd.DataFrame(np.hstack([g, a]), index=pd.Index(t, name='time'), columns=IMU)
    inc = m["strapdown"].compute_increments_from_imu(imu, kind)
    it = m["strapdown"].Integrator(pva, True)
    return vec(m, it.integrate(inc).iloc[-1])


def _errvec(m, a, b):
    """The signed error of state a against state b, per group: position [m, NED], velocity [m/s], attitude [rad, rotation vector]."""
    rn, re, rp = (float(x) for x in m["pyins"].earth.principal_radii(np.rad2deg(b[0]), b[2]))
    dp = np.array([(a[0] - b[0]) * rn, (a[1] - b[1]) * rp, -(a[2] - b[2])])
    dC = a[6:].reshape(3, 3) @ b[6:].reshape(3, 3).T
    ang = np.array([dC[2, 1] - dC[1, 2], dC[0, 2] - dC[2, 0], dC[1, 0] - dC[0, 1]]) / 2
    return [dp, a[3:6] - b[3:6], ang]


def _dist(m, a, b):
    return np.array([np.linalg.norm(v) for v in _errvec(m, a, b)])


FLOOR = np.array([2e-6, 2e-7, 1e-10])       # metres, m/s, radians: below this a distance is round-off (of the reference, of 8 s of integration)
GROUPS = ("position [m]", "velocity [m/s]", "attitude [rad]")


def _convergence_chunk(m, payload):
    """Four resolutions n, 2n, 4n, 8n.  The error of a smooth one-step method on nested grids has an expansion e(h) = c0 + c1 h + c2 h^2 +
    O(h^3) with VECTOR coefficients; the property says c0 = 0.  (The chain is first order in the Coriolis / transport terms and second
    order otherwise, with coefficients of either sign, so ratios of error NORMS at two resolutions are not a sound observable: a
    thorough-tier round showed 0.83 per halving on the unchanged code in the transition between the two regimes.)
      no_constant_component   E0(h) = (8 e(h/4) - 6 e(h/2) + e(h)) / 3 estimates c0 up to O(h^3); |E0(h/2)| <= 2 |E0(h/2) - E0(h)| + floor
                              (converging: E0 = r h^3, ratio 1/7; a non-vanishing component: E0(h/2) = E0(h) = c0)
      shrinks                 |e| at 8n samples <= 0.5 |e| at n samples + floor
      small_multiple          at the finest pair |e(4n)| <= 8 |x(4n) - x(8n)| + floor (the property's own criterion; a first-order method has 2)"""
    from scipy.integrate import solve_ivp
    pd = m["pd"]
    seed, ks = payload
    out = []
    for k in ks:
        rng = np.random.RandomState([seed, 78, k])
        sig = _signals(rng)
        sp = 250.0 if k % 4 == 2 else 30.0
        pva = pd.Series(dict(lat=rng.uniform(-80, 80), lon=rng.uniform(-180, 180), alt=rng.uniform(0, 5000), VN=rng.uniform(-sp, sp), VE=rng.uniform(-sp, sp),
                             VD=rng.uniform(-3, 3), roll=rng.uniform(-40, 40), pitch=rng.uniform(-40, 40), heading=rng.uniform(-180, 180)), name=float((0.0, 100.0)[k % 2]))
        kind = ('rate', 'increment')[(k // 2) % 2]
        irregular = 25 if k % 3 == 1 else 0
        T = 8.0
        n0 = 100
        tag = "%s-type IMU, %s sampling, lat %.1f, speed %.0f m/s" % (kind, "irregular" if irregular else "uniform", pva['lat'], np.hypot(pva['VN'], pva['VE']))
        try:
            y0 = vec(m, pva)
            sol = solve_ivp(lambda t, y: rhs(m, y, sig[0](t), sig[1](t)), (0.0, T), y0, method='DOP853', rtol=1e-13, atol=1e-13)
            if not sol.success:
                raise RuntimeError("reference solution failed: " + str(sol.message))
            ref = sol.y[:, -1]
            xs = [_run(m, pva, sig, T, n0 * 2 ** i, kind, irregular, k) for i in range(4)]
            ev = [_errvec(m, x, ref) for x in xs]
            p = None
            stats = []
            for j, name in enumerate(GROUPS):
                e = [ev[i][j] for i in range(4)]
                E0a = (8 * e[2] - 6 * e[1] + e[0]) / 3
                E0b = (8 * e[3] - 6 * e[2] + e[1]) / 3
                nb, nd = float(np.linalg.norm(E0b)), float(np.linalg.norm(E0b - E0a))
                en = [float(np.linalg.norm(x)) for x in e]
                d = float(np.linalg.norm(e[2] - e[3]))
                stats.append((nb / max(2 * nd + 5 * FLOOR[j], 1e-300), en[3] / max(0.5 * en[0] + FLOOR[j], 1e-300), en[2] / max(8 * d + FLOOR[j], 1e-300)))
                if p is None and nb > 2 * nd + 5 * FLOOR[j]:
                    p = ("an error component that does not vanish with the interval (%s): the error extrapolated to a zero interval is %.3g from the three finest of "
                         "%d .. %d samples and %.3g from the three coarsest (a vanishing remainder falls eightfold); errors %s" % (name, nb, n0, 8 * n0, float(np.linalg.norm(E0a)), ["%.3g" % x for x in en]))
                if p is None and en[3] > 0.5 * en[0] + FLOOR[j]:
                    p = "the distance to the exact solution does not shrink with the interval (%s: %.3g at %d samples, %.3g at %d)" % (name, en[0], n0, en[3], 8 * n0)
                if p is None and en[2] > 8 * d + FLOOR[j]:
                    p = ("the distance to the exact solution (%s: %.3g at %d samples) is larger than 8 times the change caused by halving the interval (%.3g)" % (name, en[2], 4 * n0, d))
            out.append((k, None if p is None else "convergence (%s): %s" % (tag, p), stats))
        except Exception as e:
            if not exc.entered_pyins(e):
                raise
            out.append((k, "convergence (%s): the library raised %s" % (tag, exc.describe(e)), []))
    return out


def _dispatch(m, task):
    kind, payload = task
    if kind == "cfg":
        return kind, replay_configs(m, payload)
    if kind == "general":
        return kind, _general_chunk(m, payload)
    return kind, _convergence_chunk(m, payload)


def check(rep, pid, tier, seed):
    rep.assumptions += [
        "decided (TLC + both-sided binding): consistency of the one-step map with the navigation equations - every Earth term with its integer coefficient - on cube-group "
        "attitudes with pitch 0, integer velocities, specific forces and body rates; for a smooth one-step method consistency is exactly 'no error component that does not "
        "vanish with the interval'",
        "the eight Earth quantities are taken from the library's public Earth model (principal_radii, gravity, RATE): that the kernel's own copies agree with them is part of what "
        "is measured; their agreement with WGS-84 is C16",
        "convergence for general smooth signals, both sensor types, uniform and irregular sampling is judged by numeric predicates computed by the harness against a DOP853 "
        "solution of the right-hand side that the specification endorses (it must reproduce the printed table in every configuration) - labelled `numeric_predicates`, not "
        "TLC-decided",
        "NOT decided: the rate of convergence (the chain is first order in the Coriolis / transport terms, second order otherwise); horizons beyond 8 s; the poles; the no-altitude mode in the convergence runs (its "
        "one-step consistency is decided)",
    ]
    dom = domain_module(tier, seed)

    def one(a):
        return tlc.run_tlc("StrapdownStep", dict(spec="Spec", invariants=INV, constants=dict(RollQ={0, 1, 2, 3}, PitchQ={0, 1, 3}, HeadQ={a}, CoriolisOnce=False, TransportFlip=False)),
                           workers=4, timeout=3000, heap="2g", coverage=True, extra_files={"MeasDomain.tla": dom})
    with ThreadPoolExecutor(4) as ex:
        results = list(ex.map(one, (0, 1, 2, 3)))
    cfgs = []
    ok = True
    for a, r in zip((0, 1, 2, 3), results):
        rep.add_tlc("StrapdownStep[heading %g]" % ANGLE[a], r)
        if not r.ok:
            ok = False
            rep.machinery("leg M: StrapdownStep violates %s: %s" % (r.violated, r.trace[-1][1] if r.trace else "?"))
        for line in r.prints:
            v = tlc.parse_value(line)
            if isinstance(v, tuple) and v and v[0] == "STEP":
                _, alt, rq, pq, hq, vel, f, w, table = v
                cfgs.append(dict(alt=bool(alt), rq=rq, pq=pq, hq=hq, vel=list(vel), f=list(f), w=list(w), table=[list(r_) for r_ in table]))
    rep.exhaustive = ok
    for variant, consts in (("CoriolisOnce = TRUE", dict(CoriolisOnce=True, TransportFlip=False)), ("TransportFlip = TRUE", dict(CoriolisOnce=False, TransportFlip=True))):
        c = dict(RollQ={1}, PitchQ={0}, HeadQ={0, 3}); c.update(consts)
        r = tlc.run_tlc("StrapdownStep", dict(spec="Spec", invariants=["Consistent"], constants=c), workers=2, timeout=900, heap="2g", extra_files={"MeasDomain.tla": dom})
        rep.add_tlc("StrapdownStep[%s] (sensitivity)" % variant, r, note="must violate Consistent")
        if r.violated == "Consistent":
            rep.extra.setdefault("spec_sensitivity", []).append(dict(variant=variant, violated=r.violated, counterexample=tlc.to_jsonable(r.trace[-1][1] if r.trace else {})))
        else:
            rep.vacuity.append("the variant %s of the model was not rejected" % variant)
    cfgs.sort(key=lambda c: (c["alt"], c["rq"], c["pq"], c["hq"], c["vel"], c["f"], c["w"]))
    for k, c in enumerate(cfgs):
        c["k"] = k + seed
    if not cfgs:
        rep.machinery("StrapdownStep printed no configuration")
        return
    ng = 60 if tier == "quick" else 1200
    nc = 16 if tier == "quick" else 160
    tasks = [("cfg", cfgs[i::24]) for i in range(24)]
    tasks += [("general", (seed, list(range(i, ng, 12)))) for i in range(12)]
    tasks += [("convergence", (seed, list(range(i, nc, 8)))) for i in range(8)]
    n_bad = n_gen = n_conv = 0
    worst_cfg = worst_gen = 0.0
    ratios = []
    for k, status, out in pool.run_tasks(_dispatch, tasks, init=filt._imports, task_timeout=3000):
        if status != "done":
            rep.machinery("leg R: worker %s on a chunk: %s" % (status, out))
            continue
        kind, res = out
        if kind == "cfg":
            bad, wv = res
            worst_cfg = max(worst_cfg, wv)
            for cfg, probs in bad:
                n_bad += 1
                for p in probs:
                    rep.violation("C01 Integrator(with_altitude=%s) at roll %g, pitch %g, heading %g, velocity %s, specific force %s, body rate %s: %s"
                                  % (cfg["alt"], ANGLE[cfg["rq"]], ANGLE[cfg.get("pq", 0)], ANGLE[cfg["hq"]], cfg["vel"], cfg["f"], cfg["w"], p), dict(mode="config", cfg=cfg), key=p[:60])
        elif kind == "general":
            for kk, p, wv in res:
                n_gen += 1
                worst_gen = max(worst_gen, wv)
                if p:
                    rep.violation("C01 numeric predicate, %s" % p, dict(mode="general", seed=seed, k=kk), key=p[:50])
        else:
            for kk, p, rr in res:
                n_conv += 1
                ratios += rr
                if p:
                    rep.violation("C01 numeric predicate, %s" % p, dict(mode="convergence", seed=seed, k=kk), key=p[:50])
    rep.extra["numeric_predicates"] = dict(
        general_states=n_gen, convergence_runs=n_conv,
        worst_deviation_over_tolerance_exact_configurations=round(worst_cfg, 4),
        worst_deviation_over_tolerance_general_states=round(worst_gen, 4),
        convergence_worst_over_bound=dict(no_constant_component=round(max([a for a, _, _ in ratios] or [0.0]), 3), shrinks=round(max([b for _, b, _ in ratios] or [0.0]), 3),
                                          small_multiple=round(max([c for _, _, c in ratios] or [0.0]), 3)),
        note="computed by the harness (difference quotients through the real Integrator; DOP853 reference on the right-hand side that reproduces the specification's table), not TLC-decided")
    rep.traces += len(cfgs) + n_gen + n_conv
    rep.evaluations += len(cfgs) + n_gen + n_conv
    for c in cfgs:
        rep.nontrivial.add((c["alt"], c["rq"], c["pq"], c["hq"], tuple(c["vel"]), tuple(c["f"]), tuple(c["w"])))
    rep.rule = ("one configuration = (altitude mode, roll, heading, velocity, specific force, body rate); the derivative of one step of the real Integrator with respect to the "
                "interval is compared, in all 15 components, with the model's table instantiated with the library's Earth quantities")
    rep.sample("3D roll 90 heading -90 v = (3,-2,1): d VN/dt = -1 - 4 (-W sin lat) + 3 / (rn+alt) - 4 tan(lat) / (re+alt)  [Coriolis with 2 W, transport rate once]")
    rep.extra["configurations"] = len(cfgs)
    rep.extra["configurations_with_disagreement"] = n_bad


def replay(rep, pid, case):
    m = filt._imports()
    mode = case.get("mode")
    if mode == "general":
        for k, p, _ in _general_chunk(m, (case["seed"], [case["k"]])):
            if p:
                rep.violation("C01 replay: %s" % p, case)
        return
    if mode == "convergence":
        for k, p, _ in _convergence_chunk(m, (case["seed"], [case["k"]])):
            if p:
                rep.violation("C01 replay: %s" % p, case)
        return
    bad, _ = replay_configs(m, [case["cfg"]])
    for cfg, probs in bad:
        for p in probs:
            rep.violation("C01 replay: %s" % p, case)
