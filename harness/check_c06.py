"""C06: measurement models - residual sign/units, H = dz/dx, R, availability - decided on an exact domain.

Leg M  MeasModel.tla: every configuration (class x altitude mode x 16 cube-group attitudes x integer velocities x lever arms incl. None
       x angular rates incl. "pva carries no rate labels"): the code-shaped Jacobian blocks equal the first-order expansion of the residual
       under the library's own correction convention (JacobianIsDerivative), the 2D reduction is the constraint "a correction does not
       change vertical velocity" (T32IsConstraint), DimsAgree, ObservesOwnBlock, NoSpuriousCoupling.  NedLeverInH = FALSE (the pinned
       NedVelocity.compute_matrices) must be caught (F14).
Leg R  every configuration TLC printed is built with the real classes: (z, H, R) shapes; H == HCode exactly; R == sd^2 I exactly; z at the
       true state == ZTrue; data = truth + e gives z == ZTrue - e (velocity exactly, position to 1e-6 relative: the metres conversion);
       the derivative of the REAL z along the REAL correct_pva (central difference; every entry is an integer here, so the comparison is a
       rounding, not a tuned tolerance) == HCode; nothing is returned at an absent time (one ulp, 1e-9 s, half an interval away, outside,
       at small and large absolute time, float and integer-typed index); the simulators of sim.py with error_sd = 0 / seeded noise.
"""
import itertools, json, os
from concurrent.futures import ThreadPoolExecutor
import numpy as np
from . import tlc, filt, pool, exc

INV = ["JacobianIsDerivative", "T32IsConstraint", "DimsAgree", "ObservesOwnBlock", "NoSpuriousCoupling"]
ANGLE = {0: 0.0, 1: 90.0, 2: 180.0, 3: -90.0}
LLA = ['lat', 'lon', 'alt']
VEL = ['VN', 'VE', 'VD']
RPH = ['roll', 'pitch', 'heading']
RATE = ['rate_x', 'rate_y', 'rate_z']
BODY = ['VX', 'VY', 'VZ']
SD = {"pos": 2.0, "ned": 3.0, "body": 0.5}           # exact squares in binary floating point


class Observed(Exception):
    """Something the code under test did that the harness met in the middle of a computation (reported as a violation)."""


def _z(meas, t, pva, em):
    ret = meas.compute_matrices(t, pva, em)
    if ret is None:
        raise Observed("nothing returned at a time present in the data when the same object was queried again (t = %r)" % (t,))
    return np.asarray(ret[0], float)


def domain_module(tier, seed, fast=False):
    rng = np.random.RandomState(seed)
    vels = [(0, 0, 0), (3, -2, 1), (0, 5, 0), (-4, 1, -2)]
    if fast:                       # aircraft speeds: the velocity skew block then dominates the transforms (seeded change C05_3)
        vels += [(250, -120, 3), (-40, 300, 0)]
    levers = [(), (0, 0, 0), (2, 0, 0), (0, -3, 1)]
    rates = [(), (0, 0, 0), (0, 0, 2), (1, -1, 0)]
    extra = 1 if tier == "quick" else 4
    for _ in range(extra):                                  # seeded additions: the domain is not a fixed list
        vels.append(tuple(int(v) for v in rng.randint(-6, 7, 3)))
        levers.append(tuple(int(v) for v in rng.randint(-4, 5, 3)))
        rates.append(tuple(int(v) for v in rng.randint(-3, 4, 3)))
    f = lambda s: "{" + ", ".join("<<" + ", ".join(str(x) for x in v) + ">>" for v in sorted(set(s))) + "}"
    return ("--------------------------- MODULE MeasDomain ---------------------------\nEXTENDS Integers\n"
            "Vels == %s\nLevers == %s\nRates == %s\n=============================================================================\n"
            % (f(vels), f(levers), f(rates)))


# ---------------------------------------------------------------------------------------------
# leg R

def _pva(m, cfg, t, perm, with_rate=True):
    pd = m["pd"]
    kind, alt, rq, hq, vel, lever, rate = cfg["kind"], cfg["alt"], cfg["rq"], cfg["hq"], cfg["vel"], cfg["lever"], cfg["rate"]
    # longitudes: ordinary, in the 0..360 convention, and within a metre of the +-180 meridian on either side (an injected error of
    # a few metres east or west then crosses it; the library's own generators keep longitude continuous): seeded change C06_6
    kk = cfg["k"]
    lon = (30.0 - kk % 5) if kk % 8 not in (2, 4, 6) else {2: 200.0, 4: 179.99999, 6: -179.99999}[kk % 8]
    vals = dict(lat=50.0 + cfg["k"] % 7, lon=lon, alt=100.0 + cfg["k"] % 11,
                VN=float(vel[0]), VE=float(vel[1]), VD=float(vel[2]), roll=ANGLE[rq], pitch=0.0, heading=ANGLE[hq])
    labels = LLA + VEL + RPH
    if perm:
        labels = RPH + VEL[::-1] + LLA
    s = pd.Series([vals[c] for c in labels], index=labels, name=t)
    if with_rate and rate:
        s = pd.concat([s, pd.Series(np.array(rate, float), index=RATE)])
        s.name = t
    return s


def _truth(m, cfg, pva):
    """What an ideal sensor at the IMU point reports at the true state `pva` (the convention of sim.generate_*_measurements)."""
    T = m["transform"]
    if cfg["kind"] == "pos":
        return pva[LLA].values.astype(float), LLA
    if cfg["kind"] == "ned":
        return pva[VEL].values.astype(float), VEL
    C = T.mat_from_rph(pva[RPH])
    return C.T @ pva[VEL].values.astype(float), BODY


def _measurement(m, cfg, data):
    M = m["measurements"]
    lever = None if not cfg["lever"] else np.array(cfg["lever"], float)
    if cfg["kind"] == "pos":
        return M.Position(data, SD["pos"], lever)
    if cfg["kind"] == "ned":
        return M.NedVelocity(data, SD["ned"], lever)
    return M.BodyVelocity(data, SD["body"])


def _frame(m, cols, rows, stamps, variant):
    """The measurement table in one of several legitimate forms: extra column, permuted columns, integer-typed index."""
    pd = m["pd"]
    df = pd.DataFrame(np.array(rows, float), index=pd.Index(stamps, name="time"), columns=cols)
    if variant % 3 == 1:
        df["quality"] = 1.0
        df = df[["quality"] + cols[::-1]]
    elif variant % 3 == 2:
        df = df[cols[::-1]]
    return df


def replay_configs(m, chunk):
    pd = m["pd"]; EM = m["error_model"]; T = m["transform"]; sim = m["sim"]
    out = []
    for cfg in chunk:
        probs = []
        try:
            probs = _one(m, cfg)
        except Observed as e:
            probs = [str(e)]
        except Exception as e:
            if not exc.entered_pyins(e):
                raise                        # a defect of the harness: machinery error, never a violation
            probs = ["the library raised " + exc.describe(e)]
        if probs:
            out.append((cfg, probs))
    return out


def _one(m, cfg):
    pd = m["pd"]; EMod = m["error_model"]; sim = m["sim"]; T = m["transform"]
    probs = []
    k = cfg["k"]
    kind, alt = cfg["kind"], cfg["alt"]
    rows, ni = cfg["rows"], cfg["ni"]
    Hs = np.array(cfg["H"], float)
    zt = np.array(cfg["ztrue"], float)
    em = EMod.InsErrorModel(alt)
    base = (0.0, 345600.0, 1234.5)[k % 3]
    stamps = [base + 0.0, base + 0.5, base + 1.0, base + 2.5]
    tq = stamps[1 + k % 2]
    perm = (k % 4 == 3)
    pva = _pva(m, cfg, tq, perm)
    truth, cols = _truth(m, cfg, pva)
    e = np.array([3.0, -2.0, 1.0]) * (1 if k % 2 else -1)
    if kind == "pos":
        meas_e = T.perturb_lla(truth, e)
    else:
        meas_e = truth + e
    others = [truth + 7.0, truth - 5.0, truth * 0.5]
    table = lambda row: _frame(m, cols, [others[0], row, others[1], others[2]] if tq == stamps[1] else
                               [others[0], others[1], row, others[2]], stamps, k // 3)
    # (a) present time, data = truth
    meas = _measurement(m, cfg, table(truth))
    pva_before = pva.copy()
    ret = meas.compute_matrices(tq, pva, em)
    if ret is None:
        return ["nothing returned at a time present in the data"]
    z, H, R = ret
    z = np.asarray(z, float); H = np.asarray(H, float); R = np.asarray(R, float)
    if z.shape != (rows,) or H.shape != (rows, ni) or R.shape != (rows, rows):
        return ["shapes z %s H %s R %s, expected %d rows x %d states" % (z.shape, H.shape, R.shape, rows, ni)]
    if not np.allclose(H, Hs, rtol=0, atol=1e-12):
        probs.append("H differs from the model's Jacobian: max |dH| = %.3g at %s" % (np.abs(H - Hs).max(), np.unravel_index(np.abs(H - Hs).argmax(), H.shape)))
    if not np.array_equal(R, SD[kind] ** 2 * np.eye(rows)):
        probs.append("R is not sd^2 I of matching dimension")
    if not np.allclose(z, zt, rtol=0, atol=1e-9):
        probs.append("residual at the true state is %r, expected %r" % (z.tolist(), zt.tolist()))
    if not pva.equals(pva_before):
        probs.append("compute_matrices modified the pva it was given")
    # (b) injected measurement error e  ->  z = ztrue - e
    meas2 = _measurement(m, cfg, table(meas_e))
    z2 = _z(meas2, tq, pva, em)
    tol = 1e-4 if kind == "pos" else 1e-12          # metres conversion: second-order terms of a 3 m displacement are ~1e-6 m
    if not np.allclose(z2, zt - e[:rows], rtol=0, atol=tol):
        probs.append("measurement error e = %r gives residual %r, expected ztrue - e = %r" % (e.tolist(), z2.tolist(), (zt - e[:rows]).tolist()))
    # (c) the derivative of the real residual along the real correction equals H (integers on this domain)
    h = np.array([1.0, 1.0, 1.0, 2.0 ** -10, 2.0 ** -10, 2.0 ** -10, 2.0 ** -12, 2.0 ** -12, 2.0 ** -12])
    if not alt:
        h = h[[0, 1, 3, 4, 6, 7, 8]]
    nine = LLA + VEL + RPH
    rate_part = pva[RATE] if all(c in pva.index for c in RATE) else None
    Hfd = np.zeros((rows, ni))
    for j in range(ni):
        zz = []
        for s in (1.0, -1.0):
            x = np.zeros(ni); x[j] = s * h[j]
            p = em.correct_pva(pva[[c for c in pva.index if c in nine]], x)
            if rate_part is not None:
                p = pd.concat([p, rate_part])
            p.name = tq
            zz.append(_z(meas, tq, p, em))
        Hfd[:, j] = -(zz[0] - zz[1]) / (2 * h[j])
    if np.abs(Hfd - np.round(Hfd)).max() > 1e-4:
        probs.append("derivative of z along correct_pva is not integral on the exact domain (max fraction %.3g)" % np.abs(Hfd - np.round(Hfd)).max())
    elif not np.array_equal(np.round(Hfd), np.round(Hs)):
        d = np.abs(np.round(Hfd) - Hs)
        probs.append("H is not the derivative of the residual with respect to the error state: dz/dx - H = %s at (row, state) %s [H there %s, dz/dx %s]" % (
            d.max(), np.unravel_index(d.argmax(), d.shape), Hs[np.unravel_index(d.argmax(), d.shape)], np.round(Hfd)[np.unravel_index(d.argmax(), d.shape)]))
    # (d) nothing is returned at an absent time
    ulp = np.spacing(tq)
    absent = [tq + ulp, tq - ulp, tq + 1e-9 * max(1.0, abs(tq)), tq - 1e-9 * max(1.0, abs(tq)), tq + 0.25, stamps[0] - 1.0, stamps[-1] + 1.0,
              tq + 1e-6 * max(1.0, abs(tq))]
    for ta in absent:
        if ta in stamps:
            continue
        pa = pva.copy(); pa.name = ta
        if meas.compute_matrices(ta, pa, em) is not None:
            probs.append("a measurement was returned at t = %r although the data hold no sample there (nearest %r)" % (ta, tq))
            break
    # integer-typed index: the integer stamp is present, a neighbour is not
    if k % 5 == 0:
        df = _frame(m, cols, [truth, truth + 1.0], np.array([3, 7]), 0)
        mi = _measurement(m, cfg, df)
        pa = pva.copy(); pa.name = 3.0
        if mi.compute_matrices(3.0, pa, em) is None or mi.compute_matrices(3, pa, em) is None:
            probs.append("integer-typed data index: nothing returned at a stamp that is present")
        if mi.compute_matrices(3.5, pa, em) is not None or mi.compute_matrices(4, pa, em) is not None:
            probs.append("integer-typed data index: a measurement returned at an absent stamp")
    # (e) the simulators: noise-free data at the true state -> zero residual (+ lever terms); seeded noise e -> -e
    if k % 4 == 0:
        traj = pd.DataFrame([pva[nine].values] * 3, index=pd.Index([tq - 0.5, tq, tq + 0.5], name="time"), columns=nine).astype(float)
        gen = dict(pos=sim.generate_position_measurements, ned=sim.generate_ned_velocity_measurements,
                   body=sim.generate_body_velocity_measurements)[kind]
        d0 = gen(traj, 0.0, rng=1)
        z0 = _z(_measurement(m, cfg, d0), tq, pva, em)
        if not np.allclose(z0, zt, rtol=0, atol=1e-9):
            probs.append("noise-free simulated measurement at the true state gives residual %r, expected %r" % (z0.tolist(), zt.tolist()))
        sd = 4.0
        d1 = gen(traj, sd, rng=k)
        en = sd * np.random.RandomState(k).randn(3, 3)[1]
        z1 = _z(_measurement(m, cfg, d1), tq, pva, em)
        if not np.allclose(z1, zt - en[:rows], rtol=0, atol=1e-4 if kind == "pos" else 1e-9):
            probs.append("simulated measurement with injected error e gives residual %r, expected -e = %r" % (z1.tolist(), (zt - en[:rows]).tolist()))
    return probs


def general_predicates(m, seed, n):
    """Numeric predicates on seeded GENERAL configurations (any roll / heading, pitch within +-80 deg, real-valued velocity, lever arm,
    rate), computed by the harness and labelled as such: H against the central difference of the real residual along the real
    correct_pva (1e-5 relative to max(1, |H|): the difference quotient is good to ~1e-7), z at the true state against C l / C (w x l),
    shapes, R.  They reach what the exact domain cannot: terms that vanish at pitch 0."""
    pd = m["pd"]; EMod = m["error_model"]; T = m["transform"]
    rng = np.random.RandomState((seed * 7 + 3) % (2 ** 31))
    probs = []
    worst = 0.0
    for k in range(n):
        kind = ("pos", "ned", "body")[k % 3]
        alt = bool((k // 3) % 2)
        rph = [float(rng.uniform(-180, 180)), float(rng.uniform(-80, 80)), float(rng.uniform(-180, 180))]
        vel = (5.0 * rng.randn(3)).tolist()
        lever = None if (kind == "body" or k % 4 == 0) else (2.0 * rng.randn(3))
        rate = None if k % 5 == 0 else (0.5 * rng.randn(3))
        nine = LLA + VEL + RPH
        vals = [float(rng.uniform(-80, 80)), float(rng.uniform(-179, 179)), float(rng.uniform(-100, 5000))] + vel + rph
        pva = pd.Series(vals, index=nine, name=10.0)
        if rate is not None:
            pva = pd.concat([pva, pd.Series(rate, index=RATE)]); pva.name = 10.0
        cfg = dict(kind=kind, lever=[] if lever is None else list(lever))
        truth, cols = _truth(m, dict(kind=kind), pva)
        data = pd.DataFrame([truth], index=pd.Index([10.0], name="time"), columns=cols)
        M = m["measurements"]
        meas = (M.Position(data, 2.0, lever) if kind == "pos" else M.NedVelocity(data, 3.0, lever) if kind == "ned" else M.BodyVelocity(data, 0.5))
        em = EMod.InsErrorModel(alt)
        tag = "%s with_altitude=%s rph=%s lever=%s rate=%s" % (kind, alt, np.round(rph, 2).tolist(), None if lever is None else np.round(lever, 2).tolist(),
                                                               None if rate is None else np.round(rate, 2).tolist())
        try:
            z, H, R = meas.compute_matrices(10.0, pva, em)
            z = np.asarray(z, float); H = np.asarray(H, float)
            rows = 3 if (kind == "body" or alt) else 2
            ni = 9 if alt else 7
            if z.shape != (rows,) or H.shape != (rows, ni) or np.shape(R) != (rows, rows):
                probs.append("general: shapes z %s H %s R %s (%s)" % (z.shape, H.shape, np.shape(R), tag)); continue
            C = T.mat_from_rph(rph)
            zt = np.zeros(3)
            if kind == "pos" and lever is not None:
                zt = C @ lever
            if kind == "ned" and lever is not None and rate is not None:
                zt = C @ np.cross(rate, lever)
            if not np.allclose(z, zt[:rows], rtol=0, atol=1e-8):
                probs.append("general: residual at the true state is %s, expected %s (%s)" % (np.round(z, 9).tolist(), np.round(zt[:rows], 9).tolist(), tag)); continue
            h = np.array([1.0, 1.0, 1.0, 2.0 ** -10, 2.0 ** -10, 2.0 ** -10, 2.0 ** -12, 2.0 ** -12, 2.0 ** -12])
            if not alt:
                h = h[[0, 1, 3, 4, 6, 7, 8]]
            Hfd = np.zeros((rows, ni))
            for j in range(ni):
                zz = []
                for sgn in (1.0, -1.0):
                    x = np.zeros(ni); x[j] = sgn * h[j]
                    p = em.correct_pva(pva[nine], x)
                    if rate is not None:
                        p = pd.concat([p, pva[RATE]])
                    p.name = 10.0
                    zz.append(_z(meas, 10.0, p, em))
                Hfd[:, j] = -(zz[0] - zz[1]) / (2 * h[j])
            dev = float(np.abs(Hfd - H).max() / max(1.0, np.abs(H).max()))
            worst = max(worst, dev)
            if dev > 1e-5:
                i = np.unravel_index(np.abs(Hfd - H).argmax(), H.shape)
                probs.append("general: H is not the derivative of the residual: at (row %d, state %d) H = %.6g, dz/dx = %.6g (%s)" % (i[0], i[1], H[i], Hfd[i], tag))
        except Observed as e:
            probs.append("general: %s (%s)" % (e, tag))
        except Exception as e:
            if not exc.entered_pyins(e):
                raise
            probs.append("general: %s: the library raised %s" % (tag, exc.describe(e)))
    return probs, worst


def parse_prints(r, sink):
    for line in r.prints:
        v = tlc.parse_value(line)
        if not (isinstance(v, tuple) and v and v[0] == "MEAS"):
            continue
        _, kind, alt, rq, hq, vel, lever, rate, rows, ni, H, zt = v
        sink.append(dict(kind=kind, alt=bool(alt), rq=rq, hq=hq, vel=list(vel), lever=list(lever), rate=list(rate), rows=rows, ni=ni,
                         H=[list(r_) for r_ in H], ztrue=list(zt)))


def check(rep, pid, tier, seed):
    rep.assumptions += [
        "exact domain: roll and heading multiples of 90 deg with pitch 0 (body-to-NED matrix entries in {-1,0,1}), integer velocities, lever arms, rates; "
        "H = dz/dx at general attitudes / near the pitch singularity is numeric and not decided",
        "the correction convention is the library's own correct_pva (error_model.py:277-301); the Position metres conversion is compared at 1e-6 relative",
        "the derivative of the real residual is a central difference whose entries are integers on this domain; |fraction| <= 1e-4 is required, then rounded",
        "general attitudes (pitch within +-80 deg) are judged by numeric predicates computed by the harness (H vs the difference quotient of the real residual at 1e-5 "
        "relative) - labelled `numeric_predicates` in the evidence, not TLC-decided",
    ]
    dom = domain_module(tier, seed)
    slices = [(k, a) for k in ("pos", "ned", "body") for a in (0, 1)]
    quarter = {0, 1, 2, 3}

    def one(sl):
        kind, half = sl
        return tlc.run_tlc("MeasModel", dict(spec="Spec", invariants=INV,
                                             constants=dict(Kinds={kind}, RollQ=quarter, HeadQ={2 * half, 2 * half + 1}, NedLeverInH=True)),
                           workers=2, timeout=3600, heap="2g", coverage=True, extra_files={"MeasDomain.tla": dom})
    with ThreadPoolExecutor(len(slices)) as ex:
        results = list(ex.map(one, slices))
    cfgs = []
    ok = True
    for sl, r in zip(slices, results):
        rep.add_tlc("MeasModel[%s, headings %s]" % (sl[0], "0/90" if sl[1] == 0 else "180/-90"), r)
        if not r.ok:
            ok = False
            rep.machinery("leg M: MeasModel violates %s: %s" % (r.violated, r.trace[-1][1] if r.trace else "?"))
        parse_prints(r, cfgs)
    rep.exhaustive = ok
    # the pinned NedVelocity.compute_matrices (no lever arm handed to the Jacobian) must be rejected by the model
    r = tlc.run_tlc("MeasModel", dict(spec="Spec", invariants=["JacobianIsDerivative"],
                                      constants=dict(Kinds={"ned"}, RollQ={0, 1}, HeadQ={0, 1}, NedLeverInH=False)),
                    workers=4, timeout=1800, heap="2g", extra_files={"MeasDomain.tla": dom})
    rep.add_tlc("MeasModel[ned, NedLeverInH = FALSE] (sensitivity)", r, note="must violate JacobianIsDerivative (defect F14)")
    if r.violated == "JacobianIsDerivative":
        st = r.trace[-1][1] if r.trace else {}
        rep.extra["spec_sensitivity"] = dict(variant="NedLeverInH = FALSE (pinned NedVelocity.compute_matrices)", violated=r.violated,
                                             counterexample=tlc.to_jsonable(st))
    else:
        rep.vacuity.append("the pinned-variant model (NedLeverInH = FALSE) was not rejected")
    for k, c in enumerate(cfgs):
        c["k"] = k
    if not cfgs:
        rep.machinery("MeasModel printed no configuration")
        return
    chunks = [cfgs[i::64] for i in range(64)]
    n_bad = 0
    seen_kinds = set()
    for k, status, out in pool.run_tasks(lambda m, c: replay_configs(m, c), chunks, init=filt._imports, task_timeout=900):
        if status != "done":
            rep.machinery("leg R: worker %s on a chunk of configurations: %s" % (status, out))
            continue
        for cfg, probs in out:
            n_bad += 1
            case = dict(mode="config", cfg=cfg)
            for p in probs:
                rep.violation("C06 %s (with_altitude=%s, roll %g, heading %g, velocity %s, lever %s, rate %s): %s" % (
                    dict(pos="Position", ned="NedVelocity", body="BodyVelocity")[cfg["kind"]], cfg["alt"], ANGLE[cfg["rq"]], ANGLE[cfg["hq"]],
                    cfg["vel"], cfg["lever"] or None, cfg["rate"] or "absent", p), case, key=p[:40])
    ng = 120 if tier == "quick" else 3000
    gp, worst = general_predicates(filt._imports(), seed, ng)
    for p in gp:
        rep.violation("C06 numeric predicate, %s" % p, dict(mode="general", seed=seed, n=ng), key=p[:50])
    rep.extra["numeric_predicates"] = dict(general_configurations=ng, disagreements=len(gp), worst_relative_deviation_of_H_from_the_difference_quotient=worst,
                                           note="computed by the harness (central differences, 1e-5), not TLC-decided")
    rep.traces += len(cfgs) + ng
    rep.evaluations += len(cfgs) + ng
    for c in cfgs:
        rep.nontrivial.add((c["kind"], c["alt"], c["rq"], c["hq"], tuple(c["vel"]), tuple(c["lever"]), tuple(c["rate"])))
    rep.rule = "one configuration = (measurement class, altitude mode, roll, heading, velocity, lever arm or None, rate or absent); each is compared in H, z, R, dz/dx, availability"
    rep.sample("Position 2D roll 90 heading -90 lever (0,-3,1): H = [I2 | 0 | skew(C l)] T32, z(true) = (C l)[:2]")
    rep.sample("NedVelocity 3D lever (2,0,0) rate (0,0,2): PHI block = skew(v + C (w x l)) (F14: the pinned code had skew(v))")
    rep.extra["configurations"] = len(cfgs)
    rep.extra["configurations_with_disagreement"] = n_bad


def replay(rep, pid, case):
    m = filt._imports()
    if case.get("mode") == "general":
        for p in general_predicates(m, case["seed"], case["n"])[0]:
            rep.violation("C06 replay: %s" % p, case)
        return
    for cfg, probs in replay_configs(m, [case["cfg"]]):
        for p in probs:
            rep.violation("C06 replay: %s" % p, case)
