"""C19: public functions are pure, deterministic and keep the documented schema.

Leg M  Api.tla (typed term algebra over spec/ApiTable.tla): TLC enumerates every callable x every combination of argument forms
       (depth 1) and the patterns f;f and f;g;f with g sharing an argument (exhaustive), invariants Frame, FormFree, Typed;
       `-simulate` generates random data-flow chains (results of earlier calls as arguments, the same object in two slots).
Leg R/T every generated program is executed on the real library (seeded base objects, writable float arrays passed deliberately);
       after every call all arguments are fingerprinted bit-wise; ApiTrace.tla re-plays the program and accepts iff the map
       content term -> fingerprint is a function at every step (not_modified, hidden_state, deterministic) and the logged
       predicates forms_agree (rtol 1e-12, row 0 of stacked forms; a form that raises while the canonical form is accepted), schema hold.
The table is checked against introspection of the ten modules: a public callable missing from the table is reported as uncovered.
"""
import json, os, shutil, tempfile
import numpy as np
from . import tlc, filt, pool, api_registry as R, api_exec as X

INV = ["Frame", "FormFree", "Typed", "Emit"]
SPEC_TABLE = os.path.join(tlc.SPEC_DIR, "ApiTable.tla")


def parse_prog(v):
    return [dict(f=c["f"], args=[list(a) for a in c["args"]], forms=list(c["forms"]), seed=c["seed"]) for c in v]


def _init():
    m = filt._imports()
    return dict(m=m, adp=X.adapters(m), scen=None)


def _run(ctx, task):
    """One batch = everything one fresh process executes: a list of programs run one after the other (module-level state of the
    library survives from one program to the next; the base objects are rebuilt for each)."""
    m = ctx["m"]
    steps = []
    for pi, prog in enumerate(task["progs"]):
        scen = X.Scenario(m, 0)
        rec = X.run_program(m, scen, ctx["adp"], prog)
        steps.append(dict(kind="reset", prog=pi))
        for s_ in rec["steps"]:
            s_["kind"] = "call"
            s_["prog"] = pi
            steps.append(s_)
    return dict(tid=task["tid"], steps=steps)


def validate(records):
    work = tempfile.mkdtemp(prefix="vapi_")
    try:
        path = os.path.join(work, "t.ndjson")
        with open(path, "w") as f:
            for r in records:
                f.write(json.dumps(r) + "\n")
        tr = tlc.run_tlc("ApiTrace", dict(spec="TraceSpec", constants=dict(MaxCalls=50, Mode="sim"), invariants=["Frame", "FormFree", "Typed"]),
                         workers=1, env={"TRACE_FILE": path}, timeout=3600, heap="8g")
        out = {}
        for line in tr.prints:
            v = tlc.parse_value(line)
            if v[0] == "API":
                out[v[1]] = sorted((b, k) for b, k in v[2])
        return out, tr
    finally:
        shutil.rmtree(work, ignore_errors=True)


def check(rep, pid, tier, seed):
    rep.assumptions += [
        "the accepted forms of a parameter follow its docstring (array_like admits lists, Series and DataFrame slices; ndarray only ndarrays)",
        "cross-form agreement is judged at rtol 1e-12 (summation order may differ between scalar and stacked code paths); purity and determinism are bit-exact",
        "stateful receivers listed in `mut` (Integrator.integrate/set_pva, EstimationModel.reset/update_estimates, Parameters.apply, Turntable.rotate/rest) "
        "and the sensor models handed to a filter may change; nothing else may",
    ]
    # ---- the table is the specification: it must be the committed ApiTable.tla and cover the modules
    if open(SPEC_TABLE).read() != R.tla_table():
        rep.machinery("spec/ApiTable.tla differs from harness/api_registry.py TABLE (regenerate and review)")
    m = filt._imports()
    present = X.introspect(m)
    listed = X.table_names()
    uncovered = sorted(present - listed - set(R.EXCLUDED))
    gone = sorted(n for n in listed if n not in present)
    rep.extra["public_callables_found"] = len(present)
    rep.extra["uncovered_callables"] = uncovered
    rep.extra["excluded_callables"] = R.EXCLUDED
    if gone:
        rep.machinery("callables of the API table that no longer exist in the modules: %s" % gone)
    for u in uncovered:
        print("UNCOVERED property=C19 public callable %s is not in the API table" % u, flush=True)
    # ---- leg M
    r1 = tlc.run_tlc("Api", dict(spec="Spec", constants=dict(MaxCalls=1, Mode="depth1"), invariants=INV), workers=1, coverage=False, timeout=3600)
    rep.add_tlc("Api[depth1: every callable x every form combination]", r1)
    r2 = tlc.run_tlc("Api", dict(spec="Spec", constants=dict(MaxCalls=3, Mode="pattern"), invariants=INV), workers=1, timeout=3600)
    rep.add_tlc("Api[pattern: f;f and f;g;f with a shared argument]", r2)
    nsim = 120 if tier == "quick" else 3000
    r3 = tlc.run_tlc("Api", dict(init="Init", next="Next", constants=dict(MaxCalls=5, Mode="sim")), workers=1,
                     simulate=dict(num=nsim, file=True), depth=6, seed=seed, timeout=3600)
    rep.add_tlc("Api[-simulate num=%d: data-flow chains]" % nsim, r3, note="behaviour generation")
    for r in (r1, r2):
        if not r.ok:
            rep.machinery("leg M: Api violates %s" % r.violated)
    rep.exhaustive = r1.ok and r2.ok
    progs = []
    for r in (r1, r2):
        for line in r.prints:
            v = tlc.parse_value(line)
            if v[0] == "PROG":
                progs.append(parse_prog(v[1]))
    uniq, seen_p = [], set()
    for p in progs:
        key = json.dumps(p, sort_keys=True)
        if key not in seen_p:
            seen_p.add(key)
            uniq.append(p)
    progs = uniq
    d1 = [p for p in progs if len(p) == 1]
    d2 = [p for p in progs if len(p) == 2 and p[0]["f"] == p[1]["f"]]
    d3 = [p for p in progs if len(p) == 3]
    rng = np.random.RandomState(seed)
    n3 = 500 if tier == "quick" else len(d3)
    heavy = {i + 1 for i, t in enumerate(R.TABLE) if t[0].startswith("filters.") or t[0].startswith("sim.generate_imu") or "smooth_state" in t[0]}
    d3_light = [p for p in d3 if not ({c["f"] for c in p} & heavy)]
    d3_heavy = [p for p in d3 if {c["f"] for c in p} & heavy]
    pick3 = [d3_light[i] for i in rng.choice(len(d3_light), size=min(n3, len(d3_light)), replace=False)] + \
            [d3_heavy[i] for i in rng.choice(len(d3_heavy), size=min(60 if tier == "quick" else len(d3_heavy), len(d3_heavy)), replace=False)]
    sims = []
    for tr in r3.sim_traces:
        if tr and len(tr[-1][1]["prog"]) >= 2:
            sims.append(parse_prog(tr[-1][1]["prog"]))
    allp = d1 + d2 + pick3 + sims
    rep.extra["program_counts"] = dict(depth1=len(d1), repeat=len(d2), pattern3=len(pick3), pattern3_enumerated=len(d3), simulated=len(sims))
    # deterministic batches, each executed by a fresh process in a seeded order
    order = list(rng.permutation(len(allp)))
    nb = 16
    batches = [[allp[i] for i in order[b::nb]] for b in range(nb)]
    tasks = [dict(progs=bt, tid=b + 1) for b, bt in enumerate(batches) if bt]
    records = [None] * len(tasks)
    for k, status, out in pool.run_tasks(_run, tasks, init=_init, procs=len(tasks), task_timeout=3000):
        if status == "done":
            records[k] = out
        else:
            rep.machinery("batch %d %s: %s" % (k + 1, status, str(out)[:400]))
    good = [r for r in records if r is not None]
    verdicts, trr = validate(good)
    rep.add_tlc("ApiTrace[%d processes, %d programs]" % (len(good), len(allp)), trr, note="trace validation")
    callables_hit = set()
    global_memo = {}
    for rec in good:
        progs_of = {}
        for s in rec["steps"]:
            if s["kind"] == "call":
                progs_of.setdefault(s["prog"], []).append(s)
        for pi, steps in progs_of.items():
            rep.traces += 1
            rep.evaluations += len(steps)
            rep.nontrivial.add(json.dumps([[s["f"], s["forms"], s["args"]] for s in steps]))
            for s in steps:
                callables_hit.add(s["name"])
                if s["exc"]:
                    rep.extra.setdefault("calls_that_raised", {}).setdefault(s["name"], 0)
                    rep.extra["calls_that_raised"][s["name"]] += 1
                # equal inputs (bit for bit) and equal seed => bit-identical results, across processes and call histories
                if not s["exc"]:
                    key = (s["f"], tuple(s["forms"]), s["seed"], tuple(s["pool_before"]))
                    prev = global_memo.setdefault(key, (s["res"], rec["tid"], pi))
                    if prev[0] != s["res"]:
                        plain = lambda st: [dict(f=x["f"], args=x["args"], forms=x["forms"], seed=x["seed"]) for x in st]
                        other = [r_ for r_ in good if r_["tid"] == prev[1]][0]
                        other_progs = {}
                        for x in other["steps"]:
                            if x["kind"] == "call":
                                other_progs.setdefault(x["prog"], []).append(x)
                        rep.violation("C19 %s: equal inputs (bit for bit) and equal seed gave different results in two processes with different call histories "
                                      "(process %d vs %d)" % (s["name"], prev[1], rec["tid"]),
                                      dict(kind="crossproc", a=[plain(other_progs[q]) for q in sorted(other_progs) if q <= prev[2]],
                                           b=[plain(progs_of[q]) for q in sorted(progs_of) if q <= pi]),
                                      key="%s|crossproc" % s["name"])
        bad = verdicts.get(rec["tid"])
        if bad is None:
            rep.machinery("process %d got no verdict from ApiTrace" % rec["tid"])
            continue
        for clause, l in bad[:6]:
            s = rec["steps"][l - 1]
            rep.violation("C19 %s(%s): clause %s fails at call %s%s%s" % (
                s["name"], ", ".join("%s:%s" % (a[0] if a[0] != "r" else "result", f) for a, f in zip(s["args"], s["forms"])), clause,
                [x["name"] for x in progs_of[s["prog"]]], "; " + s["exc"] if s["exc"] else "", "; " + s["detail"] if s["detail"] else ""),
                dict(kind="batch", progs=[[dict(f=x["f"], args=x["args"], forms=x["forms"], seed=x["seed"]) for x in progs_of[q]] for q in sorted(progs_of) if q <= s["prog"]]),
                key="%s|%s" % (s["name"], clause))
    dprobs = dtype_forms(m)
    for p in dprobs:
        rep.violation("C19 forms: " + p, dict(kind="dtype"), key=p[:40])
    aprobs = alias_purity(m)
    for p in aprobs:
        rep.violation("C19 purity: " + p, dict(kind="alias"), key=p[:40])
    rep.extra["constructor_argument_purity"] = dict(classes="Parameters, EstimationModel, Position, NedVelocity, Integrator; resample_state times", disagreements=len(aprobs))
    rep.extra["integer_typed_form_cases"] = dict(cases=29, spellings="Python int / int list, int64 array, int32 array", disagreements=len(dprobs))
    rep.extra["callables_exercised"] = len(callables_hit)
    rep.extra["callables_in_table"] = len(R.TABLE)
    missing = sorted({t[0] for t in R.TABLE} - callables_hit)
    if missing:
        rep.vacuity.append("table entries never executed: %s" % missing)
    if good:
        calls = [x for x in good[0]["steps"] if x["kind"] == "call"]
        rep.sample(dict(leg="R", first_calls_of_process_1=[dict(name=x["name"], args=x["args"], forms=x["forms"], res=x["res"]) for x in calls[:6]]))
    rep.rule = ("cases = API programs generated by TLC (every callable x form combination; f;f; f;g;f with a shared argument; simulated data-flow chains) "
                "executed on the real library; distinct = distinct (callable, forms, arguments) sequence; non-trivial = all (each program checks purity of every "
                "argument, and programs of length >= 2 check determinism / hidden state)")


def dtype_forms(m):
    """Integer-typed forms: an integral value given as Python int, integer list, int32 / int64 array or integer-typed table column is
    the same input as its float spelling ("list, array and table forms of the same input give the same values").  Output buffers
    allocated `like` an argument, accumulators that inherit a parameter's dtype and integer division are the classic ways to break this
    (seeded changes C08_3, C14_8, C17_1).  Returns a list of problem strings."""
    pd = m["pd"]
    earth, T, U, K, EMod, IS, MS, SD = m["pyins"].earth, m["transform"], m["util"], m["kalman"], m["error_model"], m["inertial_sensor"], m["measurements"], m["strapdown"]
    from . import exc as _exc
    probs = []
    I64, I32 = (lambda v: np.array(v, dtype=np.int64)), (lambda v: np.array(v, dtype=np.int32))
    F = lambda v: np.array(v, dtype=float)
    ints = (lambda v: [int(x) for x in np.ravel(v)] if np.ndim(v) == 1 else np.array(v).astype(int).tolist(), I64, I32)

    def leaves(r):
        return X.numeric_leaves(r)

    def same(a, b):
        la, lb = leaves(a), leaves(b)
        return len(la) == len(lb) and all(np.shape(x) == np.shape(y) and np.allclose(np.asarray(x, float), np.asarray(y, float), rtol=1e-12, atol=1e-12, equal_nan=True) for x, y in zip(la, lb))

    def case(name, fn, *args, arrays_only=False):
        """args: integral-valued float arrays / floats; fn is called with the float spelling and with every integer spelling
        (arrays_only: the parameter is documented as ndarray, so lists are not among its forms)."""
        try:
            ref = fn(*[F(a) if np.ndim(a) else float(a) for a in args])
        except Exception as e:
            if not _exc.entered_pyins(e):
                raise
            return
        for conv in (ints[1:] if arrays_only else ints):
            try:
                got = fn(*[(conv(a) if np.ndim(a) else int(a)) for a in args])
            except Exception as e:
                if not _exc.entered_pyins(e):
                    raise
                probs.append("%s raises for integer-typed arguments (%s: %s) although the float form of the same values is accepted" % (name, type(e).__name__, str(e)[:80]))
                return
            if not same(got, ref):
                probs.append("%s: integer-typed arguments give different values than the float form of the same values" % name)
                return

    lat, alt = [55, -33, 0, 84], [120, 3000, -5, 0]
    case("earth.principal_radii", earth.principal_radii, lat, alt)
    case("earth.principal_radii(scalar)", earth.principal_radii, 55, 120)
    case("earth.gravity", earth.gravity, lat, alt)
    case("earth.gravity_n", earth.gravity_n, lat, alt)
    case("earth.curvature_matrix", earth.curvature_matrix, lat, alt)
    case("earth.rate_n", earth.rate_n, lat)
    case("earth.gravitation_ecef", earth.gravitation_ecef, [[55, 37, 120], [-33, -122, 3000]])
    case("transform.lla_to_ecef", T.lla_to_ecef, [[55, 37, 120], [-33, -122, 3000]])
    case("transform.lla_to_ecef(single)", T.lla_to_ecef, [55, 37, 120])
    case("transform.ecef_to_lla", T.ecef_to_lla, [[2927000, 2205600, 5201400], [-2821000, -4515000, -3500300]])
    case("transform.perturb_lla", T.perturb_lla, [[55, 37, 120], [-33, -122, 3000]], [[10, -20, 5], [3, 4, -1]])
    case("transform.compute_lla_difference", T.compute_lla_difference, [[55, 37, 120], [-33, -122, 3000]], [[54, 38, 100], [-33, -121, 2000]])
    case("transform.lla_to_ned", T.lla_to_ned, [[55, 37, 120], [55, 38, 130], [56, 37, 90]], [55, 37, 100])
    case("transform.mat_en_from_ll", T.mat_en_from_ll, [55, -33], [37, -122])
    case("transform.mat_from_rph", T.mat_from_rph, [[10, -20, 30], [45, 5, -100]])
    case("transform.mat_from_rph(single)", T.mat_from_rph, [10, -20, 30])
    case("util.skew_matrix", U.skew_matrix, [[1, 2, 3], [-4, 5, 6]])
    case("util.to_180_range", U.to_180_range, [190, -180, 540, 180, -181, 725])
    case("util.mv_prod", U.mv_prod, [[[1, 2, 0], [0, 1, 0], [3, 0, 1]]] * 2, [[1, 2, 3], [4, 5, 6]])
    case("util.mm_prod", U.mm_prod, [[[1, 2, 0], [0, 1, 0], [3, 0, 1]]] * 2, [[[2, 0, 1], [1, 1, 0], [0, 3, 1]]] * 2)
    case("kalman.correct", lambda x, P, z, H, R: K.correct(x, P, z, H, R), [1, -2, 0], [[4, 1, 0], [1, 3, 0], [0, 0, 2]], [3, 1], [[1, 0, 1], [0, 2, 0]], [[2, 0], [0, 1]], arrays_only=True)
    case("kalman.compute_process_matrices", lambda Fm, Q: K.compute_process_matrices(Fm, Q, 2), [[0, 1], [0, 0]], [[0, 0], [0, 3]], arrays_only=True)

    def estimation(bias_sd, noise, sm):
        em = IS.EstimationModel(bias_sd=bias_sd, noise=noise, scale_misal_sd=sm)
        em.update_estimates(np.arange(1, em.n_states + 1) / 8.0)
        em.update_estimates(np.arange(1, em.n_states + 1) / 16.0)
        return (em.P, em.v, em.get_estimates().values, em.correct_increments(np.array([0.5, 0.25]), pd.DataFrame([[1.0, 2.0, 3.0], [0.5, -1.0, 2.0]])).values)
    case("inertial_sensor.EstimationModel", estimation, [1, 0, 2], [2, 1, 0], [[1, 0, 0], [0, 0, 2], [0, 0, 0]])
    case("inertial_sensor.EstimationModel(scalar parameters)", lambda b, n: estimation(b, n, None), 1, 2)

    def params(bias, tr):
        par = IS.Parameters(transform=tr, bias=bias)
        return par.apply(pd.DataFrame([[1.0, 2.0, 3.0], [0.5, -1.0, 2.0], [2.0, 0.0, 1.0]], index=[0.0, 0.5, 1.5], columns=["a", "b", "c"]), "increment").values
    case("inertial_sensor.Parameters", params, [1, 0, -2], [[1, 0, 0], [0, 2, 0], [1, 0, 1]])

    def position(sd, lever):
        data = pd.DataFrame([[55.0, 37.0, 120.0]], index=[3.0], columns=["lat", "lon", "alt"])
        pva = pd.Series([55.0001, 37.0, 121.0, 1.0, 2.0, 0.0, 10.0, -5.0, 70.0], index=["lat", "lon", "alt", "VN", "VE", "VD", "roll", "pitch", "heading"], name=3.0)
        return MS.Position(data, sd, lever).compute_matrices(3.0, pva, EMod.InsErrorModel(True))
    case("measurements.Position", position, 2, [1, 0, -2])

    def increments(g, a):
        imu = pd.DataFrame(np.hstack([g, a]), index=[0.0, 0.5, 1.0], columns=["gyro_x", "gyro_y", "gyro_z", "accel_x", "accel_y", "accel_z"])
        return SD.compute_increments_from_imu(imu, "rate").values
    case("strapdown.compute_increments_from_imu", increments, [[1, 0, 2], [0, 3, 1], [2, 2, 0]], [[0, 0, -10], [1, 0, -9], [0, 2, -10]])
    return probs


def alias_purity(m):
    """Objects that KEEP what they are constructed from (Parameters, EstimationModel, the measurement classes, Integrator) must not
    write through to the caller's arrays when their methods run later (seeded change C19_10: Parameters.apply drifted the caller's bias
    array), and array arguments that a function reorders internally must come back untouched (C19_9: resample_state sorted the
    caller's `times`).  Returns a list of problem strings."""
    pd = m["pd"]
    T, IS, MS, SD, EMod, sim = m["transform"], m["inertial_sensor"], m["measurements"], m["strapdown"], m["error_model"], m["sim"]
    from . import exc as _exc
    probs = []

    def unchanged(name, snaps):
        for label, obj, snap in snaps:
            same = obj.equals(snap) if hasattr(obj, "equals") else (np.array_equal(obj, snap) and obj.dtype == snap.dtype)
            if not same:
                probs.append("%s modified the caller's `%s`" % (name, label))

    def snap(**kw):
        return [(k, v, v.copy()) for k, v in kw.items()]
    try:
        # Parameters: every array argument, several apply() calls of both sensor types
        tr, bias, noise, walk = np.eye(3) + 1e-3 * np.arange(9).reshape(3, 3), np.array([1e-4, -2e-4, 3e-4]), np.array([1e-3, 0.0, 2e-3]), np.array([1e-5, 1e-5, 0.0])
        sn = snap(transform=tr, bias=bias, noise=noise, bias_walk=walk)
        par = IS.Parameters(tr, bias, noise, walk, rng=3)
        readings = pd.DataFrame(np.arange(30, dtype=float).reshape(10, 3) / 7, index=np.cumsum([0.5, 0.25] * 5), columns=["a", "b", "c"])
        rsnap = readings.copy()
        par.apply(readings, "rate"); par.apply(readings, "increment"); par.apply(readings, "rate")
        unchanged("Parameters.apply", sn + [("readings", readings, rsnap)])
        # EstimationModel: parameters given as arrays, then the whole estimate life cycle
        bsd, nz, bw, sm = np.array([1e-3, 2e-3, 0.0]), np.array([1e-4, -1.0, 1e-4]), np.array([1e-6, 0.0, 0.0]), np.diag([1e-3, 0.0, 2e-3])
        sn = snap(bias_sd=bsd, noise=nz, bias_walk=bw, scale_misal_sd=sm)
        em = IS.EstimationModel(bsd, nz, bw, sm)
        x = np.arange(1, em.n_states + 1) / 64.0; r = np.array([1.0, 2.0, 3.0]); dtv = np.array([0.5, 0.25]); inc = pd.DataFrame([[1.0, 2.0, 3.0], [0.5, -1.0, 2.0]])
        sn += snap(x=x, readings=r, dt=dtv, increments=inc)
        em.update_estimates(x); em.output_matrix(r); em.correct_increments(dtv, inc); em.get_estimates(); em.reset_estimates(); em.update_estimates(x)
        unchanged("EstimationModel methods", sn)
        # measurement classes: the data table and the lever arm
        data = pd.DataFrame([[55.0, 37.0, 120.0], [55.0001, 37.0001, 121.0]], index=[1.0, 2.0], columns=["lat", "lon", "alt"]); lever = np.array([0.5, -0.3, 0.2])
        pva = pd.Series([55.0, 37.0, 120.5, 1.0, 2.0, 0.1, 3.0, -2.0, 40.0, 0.01, 0.02, 0.03],
                        index=["lat", "lon", "alt", "VN", "VE", "VD", "roll", "pitch", "heading", "rate_x", "rate_y", "rate_z"], name=1.0)
        sn = snap(data=data, imu_to_antenna_b=lever, pva=pva)
        for alt in (True, False):
            e = EMod.InsErrorModel(alt)
            MS.Position(data, 2.0, lever).compute_matrices(1.0, pva, e)
            vdat = data.rename(columns={"lat": "VN", "lon": "VE", "alt": "VD"})
            MS.NedVelocity(vdat, 0.1, lever).compute_matrices(2.0, pva, e)
        unchanged("Position / NedVelocity compute_matrices", sn)
        # Integrator: the initial state and the increments
        p0 = pva[["lat", "lon", "alt", "VN", "VE", "VD", "roll", "pitch", "heading"]].copy(); p0.name = 0.0
        incs = pd.DataFrame([[0.5, 1e-3, 2e-3, -1e-3, 0.01, 0.02, -4.9]] * 3, index=[0.5, 1.0, 1.5], columns=["dt", "theta_x", "theta_y", "theta_z", "dv_x", "dv_y", "dv_z"])
        sn = snap(pva=p0, increments=incs)
        for alt in (True, False):
            it = SD.Integrator(p0, alt); it.predict(incs.iloc[0]); it.integrate(incs.iloc[:2]); it.set_pva(it.get_pva()); it.integrate(incs.iloc[2:])
        unchanged("Integrator methods", sn)
        # arrays a function reorders internally
        tab = pd.DataFrame({"VN": [0.0, 1.0, 2.0, 3.0], "roll": [0.0, 1.0, 2.0, 3.0], "pitch": [0.0] * 4, "heading": [10.0, 20.0, 30.0, 40.0]}, index=[0.0, 1.0, 2.0, 3.0])
        for targ in (np.array([2.5, 0.5, 1.5, 0.5, 9.0]), pd.Index([2.5, 0.5, 1.5]), pd.Series([2.5, 0.5, 1.5])):
            ts = targ.copy()
            T.resample_state(tab, targ)
            unchanged("resample_state", [("times (%s)" % type(targ).__name__, targ, ts), ("state", tab, tab.copy())])
    except Exception as e:
        if not _exc.entered_pyins(e):
            raise
        probs.append("an object kept from writable arguments raised while its methods ran: %s" % _exc.describe(e))
    return probs


def replay(rep, pid, case):
    if case.get("kind") == "alias":
        for p in alias_purity(filt._imports()):
            rep.violation("C19 " + p, case)
        return
    if case.get("kind") == "dtype":
        for p in dtype_forms(filt._imports()):
            rep.violation("C19 " + p, case)
        return
    if case.get("kind") == "crossproc":
        tasks = [dict(progs=case["a"], tid=1), dict(progs=case["b"], tid=2)]
        recs = {}
        for k, status, out in pool.run_tasks(_run, tasks, init=_init, procs=2, task_timeout=3000):
            if status == "done":
                recs[k] = out
        memo = {}
        rep.traces += 2
        for k in sorted(recs):
            for s in recs[k]["steps"]:
                if s["kind"] == "call" and not s["exc"]:
                    key = (s["f"], tuple(s["forms"]), s["seed"], tuple(s["pool_before"]))
                    if memo.setdefault(key, s["res"]) != s["res"]:
                        rep.violation("C19 %s: equal inputs and equal seed gave different results in two processes with different call histories" % s["name"], case)
                        return
        return
    ctx = _init()
    progs = case["progs"] if "progs" in case else [case["prog"]]
    rec = _run(ctx, dict(progs=progs, tid=1))
    verdicts, _ = validate([rec])
    rep.traces += 1
    for clause, l in verdicts.get(1, []):
        s = rec["steps"][l - 1]
        rep.violation("C19 %s: clause %s fails at call %d; %s %s" % (s["name"], clause, l, s["exc"], s["detail"]), case)
