"""C19: public functions are pure, deterministic and keep the documented schema.

Leg M  Api.tla (typed term algebra over spec/ApiTable.tla): TLC enumerates every callable x every combination of argument forms
       (depth 1) and the patterns f;f and f;g;f with g sharing an argument (exhaustive), invariants Frame, FormFree, Typed;
       `-simulate` generates random data-flow chains (results of earlier calls as arguments, the same object in two slots).
Leg R/T every generated program is executed on the real library (seeded base objects, writable float arrays passed deliberately);
       after every call all arguments are fingerprinted bit-wise; ApiTrace.tla re-plays the program and accepts iff the map
       content term -> fingerprint is a function at every step (not_modified, hidden_state, deterministic) and the logged
       predicates forms_agree (rtol 1e-12, row 0 of stacked forms; a form that raises while the canonical form is accepted), schema hold.
The table is checked against introspection of the ten modules: a public callable missing from the table is reported as uncovered.
"""
import json, os, shutil, tempfile
import numpy as np
from . import tlc, filt, pool, api_registry as R, api_exec as X

INV = ["Frame", "FormFree", "Typed", "Emit"]
SPEC_TABLE = os.path.join(tlc.SPEC_DIR, "ApiTable.tla")


def parse_prog(v):
    return [dict(f=c["f"], args=[list(a) for a in c["args"]], forms=list(c["forms"]), seed=c["seed"]) for c in v]


def _init():
    m = filt._imports()
    return dict(m=m, adp=X.adapters(m), scen=None)


def _run(ctx, task):
    """One batch = everything one fresh process executes: a list of programs run one after the other (module-level state of the
    library survives from one program to the next; the base objects are rebuilt for each)."""
    m = ctx["m"]
    steps = []
    for pi, prog in enumerate(task["progs"]):
        scen = X.Scenario(m, 0)
        rec = X.run_program(m, scen, ctx["adp"], prog)
        steps.append(dict(kind="reset", prog=pi))
        for s_ in rec["steps"]:
            s_["kind"] = "call"
            s_["prog"] = pi
            steps.append(s_)
    return dict(tid=task["tid"], steps=steps)


def validate(records):
    work = tempfile.mkdtemp(prefix="vapi_")
    try:
        path = os.path.join(work, "t.ndjson")
        with open(path, "w") as f:
            for r in records:
                f.write(json.dumps(r) + "\n")
        tr = tlc.run_tlc("ApiTrace", dict(spec="TraceSpec", constants=dict(MaxCalls=50, Mode="sim"), invariants=["Frame", "FormFree", "Typed"]),
                         workers=1, env={"TRACE_FILE": path}, timeout=3600, heap="8g")
        out = {}
        for line in tr.prints:
            v = tlc.parse_value(line)
            if v[0] == "API":
                out[v[1]] = sorted((b, k) for b, k in v[2])
        return out, tr
    finally:
        shutil.rmtree(work, ignore_errors=True)


def check(rep, pid, tier, seed):
    rep.assumptions += [
        "the accepted forms of a parameter follow its docstring (array_like admits lists, Series and DataFrame slices; ndarray only ndarrays)",
        "cross-form agreement is judged at rtol 1e-12 (summation order may differ between scalar and stacked code paths); purity and determinism are bit-exact",
        "stateful receivers listed in `mut` (Integrator.integrate/set_pva, EstimationModel.reset/update_estimates, Parameters.apply, Turntable.rotate/rest) "
        "and the sensor models handed to a filter may change; nothing else may",
    ]
    # ---- the table is the specification: it must be the committed ApiTable.tla and cover the modules
    if open(SPEC_TABLE).read() != R.tla_table():
        rep.machinery("spec/ApiTable.tla differs from harness/api_registry.py TABLE (regenerate and review)")
    m = filt._imports()
    present = X.introspect(m)
    listed = X.table_names()
    uncovered = sorted(present - listed - set(R.EXCLUDED))
    gone = sorted(n for n in listed if n not in present)
    rep.extra["public_callables_found"] = len(present)
    rep.extra["uncovered_callables"] = uncovered
    rep.extra["excluded_callables"] = R.EXCLUDED
    if gone:
        rep.machinery("callables of the API table that no longer exist in the modules: %s" % gone)
    for u in uncovered:
        print("UNCOVERED property=C19 public callable %s is not in the API table" % u, flush=True)
    # ---- leg M
    r1 = tlc.run_tlc("Api", dict(spec="Spec", constants=dict(MaxCalls=1, Mode="depth1"), invariants=INV), workers=1, coverage=False, timeout=3600)
    rep.add_tlc("Api[depth1: every callable x every form combination]", r1)
    r2 = tlc.run_tlc("Api", dict(spec="Spec", constants=dict(MaxCalls=3, Mode="pattern"), invariants=INV), workers=1, timeout=3600)
    rep.add_tlc("Api[pattern: f;f and f;g;f with a shared argument]", r2)
    nsim = 120 if tier == "quick" else 3000
    r3 = tlc.run_tlc("Api", dict(init="Init", next="Next", constants=dict(MaxCalls=5, Mode="sim")), workers=1,
                     simulate=dict(num=nsim, file=True), depth=6, seed=seed, timeout=3600)
    rep.add_tlc("Api[-simulate num=%d: data-flow chains]" % nsim, r3, note="behaviour generation")
    for r in (r1, r2):
        if not r.ok:
            rep.machinery("leg M: Api violates %s" % r.violated)
    rep.exhaustive = r1.ok and r2.ok
    progs = []
    for r in (r1, r2):
        for line in r.prints:
            v = tlc.parse_value(line)
            if v[0] == "PROG":
                progs.append(parse_prog(v[1]))
    uniq, seen_p = [], set()
    for p in progs:
        key = json.dumps(p, sort_keys=True)
        if key not in seen_p:
            seen_p.add(key)
            uniq.append(p)
    progs = uniq
    d1 = [p for p in progs if len(p) == 1]
    d2 = [p for p in progs if len(p) == 2 and p[0]["f"] == p[1]["f"]]
    d3 = [p for p in progs if len(p) == 3]
    rng = np.random.RandomState(seed)
    n3 = 500 if tier == "quick" else len(d3)
    heavy = {i + 1 for i, t in enumerate(R.TABLE) if t[0].startswith("filters.") or t[0].startswith("sim.generate_imu") or "smooth_state" in t[0]}
    d3_light = [p for p in d3 if not ({c["f"] for c in p} & heavy)]
    d3_heavy = [p for p in d3 if {c["f"] for c in p} & heavy]
    pick3 = [d3_light[i] for i in rng.choice(len(d3_light), size=min(n3, len(d3_light)), replace=False)] + \
            [d3_heavy[i] for i in rng.choice(len(d3_heavy), size=min(60 if tier == "quick" else len(d3_heavy), len(d3_heavy)), replace=False)]
    sims = []
    for tr in r3.sim_traces:
        if tr and len(tr[-1][1]["prog"]) >= 2:
            sims.append(parse_prog(tr[-1][1]["prog"]))
    allp = d1 + d2 + pick3 + sims
    rep.extra["program_counts"] = dict(depth1=len(d1), repeat=len(d2), pattern3=len(pick3), pattern3_enumerated=len(d3), simulated=len(sims))
    # deterministic batches, each executed by a fresh process in a seeded order
    order = list(rng.permutation(len(allp)))
    nb = 16
    batches = [[allp[i] for i in order[b::nb]] for b in range(nb)]
    tasks = [dict(progs=bt, tid=b + 1) for b, bt in enumerate(batches) if bt]
    records = [None] * len(tasks)
    for k, status, out in pool.run_tasks(_run, tasks, init=_init, procs=len(tasks), task_timeout=3000):
        if status == "done":
            records[k] = out
        else:
            rep.machinery("batch %d %s: %s" % (k + 1, status, str(out)[:400]))
    good = [r for r in records if r is not None]
    verdicts, trr = validate(good)
    rep.add_tlc("ApiTrace[%d processes, %d programs]" % (len(good), len(allp)), trr, note="trace validation")
    callables_hit = set()
    global_memo = {}
    for rec in good:
        progs_of = {}
        for s in rec["steps"]:
            if s["kind"] == "call":
                progs_of.setdefault(s["prog"], []).append(s)
        for pi, steps in progs_of.items():
            rep.traces += 1
            rep.evaluations += len(steps)
            rep.nontrivial.add(json.dumps([[s["f"], s["forms"], s["args"]] for s in steps]))
            for s in steps:
                callables_hit.add(s["name"])
                if s["exc"]:
                    rep.extra.setdefault("calls_that_raised", {}).setdefault(s["name"], 0)
                    rep.extra["calls_that_raised"][s["name"]] += 1
                # equal inputs (bit for bit) and equal seed => bit-identical results, across processes and call histories
                if not s["exc"]:
                    key = (s["f"], tuple(s["forms"]), s["seed"], tuple(s["pool_before"]))
                    prev = global_memo.setdefault(key, (s["res"], rec["tid"], pi))
                    if prev[0] != s["res"]:
                        plain = lambda st: [dict(f=x["f"], args=x["args"], forms=x["forms"], seed=x["seed"]) for x in st]
                        other = [r_ for r_ in good if r_["tid"] == prev[1]][0]
                        other_progs = {}
                        for x in other["steps"]:
                            if x["kind"] == "call":
                                other_progs.setdefault(x["prog"], []).append(x)
                        rep.violation("C19 %s: equal inputs (bit for bit) and equal seed gave different results in two processes with different call histories "
                                      "(process %d vs %d)" % (s["name"], prev[1], rec["tid"]),
                                      dict(kind="crossproc", a=[plain(other_progs[q]) for q in sorted(other_progs) if q <= prev[2]],
                                           b=[plain(progs_of[q]) for q in sorted(progs_of) if q <= pi]),
                                      key="%s|crossproc" % s["name"])
        bad = verdicts.get(rec["tid"])
        if bad is None:
            rep.machinery("process %d got no verdict from ApiTrace" % rec["tid"])
            continue
        for clause, l in bad[:6]:
            s = rec["steps"][l - 1]
            rep.violation("C19 %s(%s): clause %s fails at call %s%s%s" % (
                s["name"], ", ".join("%s:%s" % (a[0] if a[0] != "r" else "result", f) for a, f in zip(s["args"], s["forms"])), clause,
                [x["name"] for x in progs_of[s["prog"]]], "; " + s["exc"] if s["exc"] else "", "; " + s["detail"] if s["detail"] else ""),
                dict(kind="batch", progs=[[dict(f=x["f"], args=x["args"], forms=x["forms"], seed=x["seed"]) for x in progs_of[q]] for q in sorted(progs_of) if q <= s["prog"]]),
                key="%s|%s" % (s["name"], clause))
    rep.extra["callables_exercised"] = len(callables_hit)
    rep.extra["callables_in_table"] = len(R.TABLE)
    missing = sorted({t[0] for t in R.TABLE} - callables_hit)
    if missing:
        rep.vacuity.append("table entries never executed: %s" % missing)
    if good:
        calls = [x for x in good[0]["steps"] if x["kind"] == "call"]
        rep.sample(dict(leg="R", first_calls_of_process_1=[dict(name=x["name"], args=x["args"], forms=x["forms"], res=x["res"]) for x in calls[:6]]))
    rep.rule = ("cases = API programs generated by TLC (every callable x form combination; f;f; f;g;f with a shared argument; simulated data-flow chains) "
                "executed on the real library; distinct = distinct (callable, forms, arguments) sequence; non-trivial = all (each program checks purity of every "
                "argument, and programs of length >= 2 check determinism / hidden state)")


def replay(rep, pid, case):
    if case.get("kind") == "crossproc":
        tasks = [dict(progs=case["a"], tid=1), dict(progs=case["b"], tid=2)]
        recs = {}
        for k, status, out in pool.run_tasks(_run, tasks, init=_init, procs=2, task_timeout=3000):
            if status == "done":
                recs[k] = out
        memo = {}
        rep.traces += 2
        for k in sorted(recs):
            for s in recs[k]["steps"]:
                if s["kind"] == "call" and not s["exc"]:
                    key = (s["f"], tuple(s["forms"]), s["seed"], tuple(s["pool_before"]))
                    if memo.setdefault(key, s["res"]) != s["res"]:
                        rep.violation("C19 %s: equal inputs and equal seed gave different results in two processes with different call histories" % s["name"], case)
                        return
        return
    ctx = _init()
    progs = case["progs"] if "progs" in case else [case["prog"]]
    rec = _run(ctx, dict(progs=progs, tid=1))
    verdicts, _ = validate([rec])
    rep.traces += 1
    for clause, l in verdicts.get(1, []):
        s = rec["steps"][l - 1]
        rep.violation("C19 %s: clause %s fails at call %d; %s %s" % (s["name"], clause, l, s["exc"], s["detail"]), case)
