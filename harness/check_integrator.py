"""C02 (history independence of strapdown.Integrator) and the integrator part of C13 (2D mode).

Leg M  TLC exhaustive on Integrator.tla: all call histories up to MaxDepth over an increments table of N rows,
       capacities {1,2,3,5}, both modes; invariants IndexOnce, Canonical, InBounds, BufMirrorsRows, ReturnShape,
       Frozen2D, AltSource; action properties PrefixFrozen, PredictPure; refinement of IntegratorCap.
       With the call history hidden by VIEW the histories collapse onto the observable states; one run without the
       VIEW counts the histories.  FixedSet = FALSE (pinned set_pva) must violate Frozen2D.
Leg R  `tlc -simulate` behaviours replayed on `class Small(Integrator): INITIAL_SIZE = Cap0`; after every action
       every trajectory row, the return value, the time index, the buffers and the 2D clauses are compared with
       the specification state through Interp (fresh object, one integrate call) and bit patterns.
Leg T  seeded random call histories outside the model's bounds (N = 40, 30 calls) validated by IntegratorTrace.tla,
       and histories that cross the real default capacity (10 000 rows) validated by IntegratorCapTrace.tla.
"""
import json, os, tempfile, shutil
import re as _re
from concurrent.futures import ThreadPoolExecutor
import numpy as np
from . import tlc, filt, integ, pool

INV = ["IndexOnce", "Canonical", "InBounds", "BufMirrorsRows", "ReturnShape", "Frozen2D", "AltSource"]
PROPS = ["PrefixFrozen", "PredictPure", "IntegratorRefinesCap"]

SIZES = {
    "quick":    dict(N=4, depth=6, caps=[1, 2, 3, 5], hist_depth=4, sim=40, simN=6, simdepth=12, rec=20, big=4),
    "thorough": dict(N=5, depth=8, caps=[1, 2, 3, 5], hist_depth=5, sim=2500, simN=7, simdepth=16, rec=600, big=40),
}


def model_check(rep, pid, tier):
    sz = SIZES[tier]
    modes = [False] if pid == "C13" else [True, False]
    jobs = [(c, a) for c in sz["caps"] for a in modes]

    def one(job):
        cap0, alt = job
        consts = dict(N=sz["N"], Cap0=cap0, WithAlt=alt, MaxSets=2, MaxDepth=sz["depth"], FixedSet=True)
        return tlc.run_tlc("Integrator", dict(spec="Spec", constants=consts, invariants=INV, properties=PROPS, view="View"),
                           workers=2, coverage=True, timeout=7200, heap="3g")
    with ThreadPoolExecutor(8) as ex:
        results = list(ex.map(one, jobs))
    ok = True
    for (cap0, alt), r in zip(jobs, results):
        rep.add_tlc("Integrator[N=%d,Cap0=%d,WithAlt=%s,MaxDepth=%d,VIEW]" % (sz["N"], cap0, alt, sz["depth"]), r)
        if not r.ok:
            ok = False
            rep.machinery("leg M: Integrator violates %s (Cap0=%d, WithAlt=%s): history %s" % (
                r.violated, cap0, alt, json.dumps(tlc.to_jsonable(r.trace[-1][1].get("hist")) if r.trace else None)))
        for act in ("IntegrateAct", "PredictAct", "SetPvaAct", "GetAct"):
            if r.coverage.get(act, (0, 0))[1] == 0:
                rep.vacuity.append("Integrator Cap0=%d: action %s never taken" % (cap0, act))
    rep.exhaustive = ok
    # number of call histories (no VIEW): history independence is the collapse of these onto the states above
    consts = dict(N=sz["N"], Cap0=2, WithAlt=False, MaxSets=2, MaxDepth=sz["hist_depth"], FixedSet=True)
    r = tlc.run_tlc("Integrator", dict(spec="Spec", constants=consts, invariants=INV, properties=["PrefixFrozen", "PredictPure"]),
                    workers=16, timeout=7200)
    rep.add_tlc("Integrator[N=%d,Cap0=2,2D,MaxDepth=%d,no VIEW: one state per call history]" % (sz["N"], sz["hist_depth"]), r)
    rep.extra["call_histories_enumerated"] = r.states
    if not r.ok:
        rep.machinery("leg M: Integrator (no VIEW) violates %s" % r.violated)
    if pid == "C02":
        apalache_inductive(rep)
    # sensitivity: the pinned set_pva
    consts = dict(N=3, Cap0=2, WithAlt=False, MaxSets=2, MaxDepth=4, FixedSet=False)
    r = tlc.run_tlc("Integrator", dict(spec="Spec", constants=consts, invariants=INV, view="View"), workers=4)
    rep.extra.setdefault("spec_sensitivity", []).append(dict(model="Integrator[FixedSet=FALSE]", violated=r.violated,
                                                             history=tlc.to_jsonable(r.trace[-1][1].get("hist")) if r.trace else None))
    if r.ok:
        rep.vacuity.append("Integrator: FixedSet=FALSE satisfies Frozen2D - the 2D abstraction is vacuous")


def apalache_inductive(rep):
    """Unbounded complement of the capacity discipline: Apalache proves that IndInv of IntegratorCapApa.tla is inductive for ALL table
    sizes and initial capacities (CInit => IndInv, IndInv /\\ CNext => IndInv').  Integrator => IntegratorCap is checked by TLC."""
    import shutil, subprocess, tempfile, time
    exe = shutil.which("apalache-mc")
    if not exe:
        rep.vacuity.append("apalache-mc not found: the unbounded capacity invariant was not re-proved in this run")
        return
    work = tempfile.mkdtemp(prefix="vapa_")
    try:
        for f in ("IntegratorCap.tla", "IntegratorCapApa.tla"):
            shutil.copy(os.path.join(tlc.SPEC_DIR, f), work)
        res = {}
        t0 = time.time()
        for name, args in (("base", ["--init=CInit", "--length=0"]), ("step", ["--init=IndInit", "--length=1"])):
            try:
                p = subprocess.run([exe, "check", "--cinit=ConstInit", "--next=CNext", "--inv=IndInv", "--out-dir=" + os.path.join(work, "out")] + args +
                                   ["IntegratorCapApa.tla"], cwd=work, capture_output=True, text=True, timeout=300)
                out = p.stdout + p.stderr
                res[name] = "OK" if "EXITCODE: OK" in out else ("VIOLATED" if "EXITCODE: ERROR (12)" in out else "FAILED: " + out[-300:])
            except subprocess.TimeoutExpired:
                res[name] = "TIMEOUT"
        res["wall_s"] = round(time.time() - t0, 1)
        rep.extra["apalache_inductive_invariant"] = dict(module="IntegratorCapApa", invariant="IndInv", constants="NInc, Cap0 symbolic (ConstInit: naturals, Cap0 >= 1)", **res)
        if "VIOLATED" in res.values():
            rep.machinery("Apalache: IndInv of IntegratorCapApa is not inductive (%s)" % res)
        elif res.get("base") != "OK" or res.get("step") != "OK":
            rep.vacuity.append("Apalache did not complete the inductive proof in this run: %s" % res)
    finally:
        shutil.rmtree(work, ignore_errors=True)


def simulate(rep, pid, tier, seed):
    sz = SIZES[tier]
    modes = [False] if pid == "C13" else [True, False]
    tasks = []
    jobs = [(c, a) for c in sz["caps"] for a in modes]

    def one(job):
        cap0, alt = job
        consts = dict(N=sz["simN"], Cap0=cap0, WithAlt=alt, MaxSets=3, MaxDepth=sz["simdepth"], FixedSet=True)
        return tlc.run_tlc("Integrator", dict(init="Init", next="Next", constants=consts), workers=1,
                           simulate=dict(num=sz["sim"], file=True), depth=sz["simdepth"] + 2, seed=seed + cap0 * 2 + int(alt), timeout=3600, heap="2g")
    with ThreadPoolExecutor(8) as ex:
        results = list(ex.map(one, jobs))
    for (cap0, alt), r in zip(jobs, results):
        rep.add_tlc("Integrator[-simulate num=%d,N=%d,Cap0=%d,WithAlt=%s]" % (sz["sim"], sz["simN"], cap0, alt), r, note="behaviour generation for leg R")
        for k, tr in enumerate(r.sim_traces):
            if len(tr) < 2:
                continue
            ops = [tuple(h) for h in tr[-1][1]["hist"]]
            tasks.append(dict(N=sz["simN"], cap0=cap0, alt=alt, seed=seed * 1009 + len(tasks), init=tr[0][1], ops=ops,
                              states=[dict(rows=s["rows"], ret=s["ret"], cap=s["cap"]) for _, s in tr[1:]], perm=True))
    return tasks


def run_legs(rep, pid, tier, seed):
    sz = SIZES[tier]
    tasks = simulate(rep, pid, tier, seed)
    n_nontriv = 0
    results = [None] * len(tasks)
    for k, status, payload in pool.run_tasks(lambda m, t: integ.replay_behaviour(m, t), tasks, init=filt.init_worker, task_timeout=120):
        results[k] = (status, payload)
    for t, (status, out) in zip(tasks, results):
        rep.traces += 1
        rep.evaluations += 1
        key = json.dumps([t["cap0"], t["alt"], [list(o) for o in t["ops"]]])
        if status == "died":
            rep.violation("Integrator: the worker process died (out-of-bounds kernel write?) while replaying a TLC behaviour",
                          dict(kind="replay", task=_light(t)), key="died")
            continue
        if status != "done":
            rep.machinery("replay task %s: %s" % (status, str(out)[:300]))
            continue
        if out["crossed"] or any(o[0] == "S" for o in t["ops"]):
            rep.nontrivial.add(key)
        if out["bad"]:
            rep.violation("%s Integrator (Cap0=%d, with_altitude=%s) after history %s: %s" % (pid, t["cap0"], t["alt"], [list(o) for o in t["ops"]], out["bad"][0]),
                          dict(kind="replay", task=_light(t), problems=out["bad"]), key=_re.sub(r"[0-9][0-9.e+-]*", "#", out["bad"][0])[:70])
        for d in out["drift"]:
            rep.model_drift("Integrator: %s (Cap0=%d)" % (d, t["cap0"]))
        if len(rep.samples) < 3 and out["crossed"]:
            rep.sample(dict(leg="R", Cap0=t["cap0"], with_altitude=t["alt"], history=[list(o) for o in t["ops"]],
                            final_rows=[dict(base=r["base"], incs=list(r["incs"])) for r in t["states"][-1]["rows"]], verdict="bit-identical to single-shot integration after every call"))
    # ---- leg T: recorded episodes
    modes = [False] if pid == "C13" else [True, False]
    groups = [(c, a) for c in (2, 7) for a in modes]
    etasks = []
    for gi, (c, a) in enumerate(groups):
        for j in range(sz["rec"]):
            etasks.append(dict(N=40, cap0=c, alt=a, seed=seed * 31 + gi * 100000 + j, nops=30, tid=j + 1, group=gi))
    recs = [None] * len(etasks)
    for k, status, payload in pool.run_tasks(lambda m, t: integ.record_episode(m, t), etasks, init=filt.init_worker, task_timeout=300):
        if status == "done":
            recs[k] = payload
        elif status == "died":
            rep.violation("Integrator: worker died while recording a random call history (seed %d)" % etasks[k]["seed"],
                          dict(kind="episode", task=etasks[k]), key="died")
        else:
            rep.machinery("episode task %s: %s" % (status, str(payload)[:300]))
    for gi, (c, a) in enumerate(groups):
        grp = [(t, r) for t, r in zip(etasks, recs) if t["group"] == gi and r is not None]
        if not grp:
            continue
        accepted, capdrift, tr = validate_episodes([r for _, r in grp], c, a)
        rep.add_tlc("IntegratorTrace[N=40,Cap0=%d,WithAlt=%s,%d traces]" % (c, a, len(grp)), tr, note="trace validation")
        for t, r in grp:
            rep.traces += 1
            rep.evaluations += 1
            rep.nontrivial.add(json.dumps([c, a, [(o["op"], o.get("k"), o.get("i"), o.get("sc"), o.get("vdz")) for o in r["ops"]]]))
            if r["exc"]:
                rep.violation("%s Integrator: call raised in a random history (seed %d): %s" % (pid, t["seed"], r["exc"]),
                              dict(kind="episode", task=t), key="exc")
            elif r["tid"] not in accepted:
                rep.violation("%s Integrator (Cap0=%d, with_altitude=%s): recorded call history (seed %d, %d calls) is not a behaviour of Integrator.tla "
                              "(rows / return values / time index / 2D clauses differ from the oracle)" % (pid, c, a, t["seed"], len(r["ops"])),
                              dict(kind="episode", task=t), key="episode-rejected")
        for d in capdrift[:3]:
            rep.model_drift("IntegratorTrace: capacity differs from the doubling rule: %s" % (d,))
    # ---- capacity boundary at the real default size
    if pid in ("C02", "C13"):
        btasks = [dict(alt=bool(j % 2) if pid == "C02" else False, seed=seed * 17 + j, tid=j + 1) for j in range(sz["big"] if pid == "C02" else max(2, sz["big"] // 2))]
        brecs = [None] * len(btasks)
        for k, status, payload in pool.run_tasks(lambda m, t: integ.record_big_episode(m, t), btasks, init=filt.init_worker, task_timeout=300):
            if status == "done":
                brecs[k] = payload
            elif status == "died":
                rep.violation("Integrator: worker died while crossing the default capacity (seed %d)" % btasks[k]["seed"],
                              dict(kind="big", task=btasks[k]), key="died")
            else:
                rep.machinery("big episode %s: %s" % (status, str(payload)[:300]))
        good = [r for r in brecs if r is not None]
        if good:
            verd, tr = validate_big(good)
            rep.add_tlc("IntegratorCapTrace[NInc=%d,Cap0=%d,%d traces]" % (good[0]["NInc"], good[0]["Cap0"], len(good)), tr, note="trace validation across the default capacity")
            for t, r in zip(btasks, brecs):
                if r is None:
                    continue
                rep.traces += 1
                rep.evaluations += 1
                rep.nontrivial.add("big%d" % t["seed"])
                v = verd.get(r["tid"], dict(failing={"no verdict"}, accepted=False))
                if v["failing"]:
                    rep.violation("%s Integrator: history crossing the default capacity (seed %d, with_altitude=%s, early set_pva) fails %s; %s" % (pid, t["seed"], t["alt"], sorted(v["failing"]), r["exc"]),
                                  dict(kind="big", task=t), key="big")
                elif not v["accepted"]:
                    rep.model_drift("IntegratorCapTrace: capacity sequence of seed %d is not the doubling rule" % t["seed"])
            rep.sample(dict(leg="T/capacity", ops=[(o["op"], o["k"], o["n"], o["cap"]) for o in good[0]["ops"][:8]]))


def _light(t):
    return dict(N=t["N"], cap0=t["cap0"], alt=t["alt"], seed=t["seed"], ops=[list(o) for o in t["ops"]], init=tlc.to_jsonable(t["init"]),
                states=tlc.to_jsonable(t["states"]), perm=t.get("perm", False))


def validate_episodes(recs, cap0, alt, verbose=False):
    work = tempfile.mkdtemp(prefix="vit_")
    try:
        path = os.path.join(work, "t.ndjson")
        with open(path, "w") as f:
            for r in recs:
                f.write(json.dumps(r) + "\n")
        consts = dict(N=recs[0]["N"], Cap0=cap0, WithAlt=alt, MaxSets=100, MaxDepth=100000, FixedSet=True)
        tr = tlc.run_tlc("IntegratorTrace", dict(spec="TraceSpec", constants=consts, invariants=INV + (["Reached"] if verbose else [])),
                         workers=1, env={"TRACE_FILE": path}, timeout=3600)
        accepted, capdrift = set(), []
        for line in tr.prints:
            v = tlc.parse_value(line)
            if v[0] == "ACCEPT":
                accepted.add(v[1])
            elif v[0] == "CAPDRIFT":
                capdrift.append(v[1:])
        return accepted, capdrift, tr
    finally:
        shutil.rmtree(work, ignore_errors=True)


def validate_big(recs):
    work = tempfile.mkdtemp(prefix="vib_")
    try:
        path = os.path.join(work, "t.ndjson")
        with open(path, "w") as f:
            for r in recs:
                f.write(json.dumps(r) + "\n")
        tr = tlc.run_tlc("IntegratorCapTrace", dict(spec="TraceSpec", constants=dict(NInc=recs[0]["NInc"], Cap0=recs[0]["Cap0"]),
                                                    invariants=["CInBounds", "CIndexOnce"], properties=["CMonotone"]),
                         workers=1, env={"TRACE_FILE": path}, timeout=3600)
        out = {}
        for line in tr.prints:
            v = tlc.parse_value(line)
            if v[0] == "CONTRACT":
                out.setdefault(v[1], dict(failing=set(), accepted=False))["failing"] = set(v[2])
            elif v[0] == "ACCEPT":
                out.setdefault(v[1], dict(failing=set(), accepted=False))["accepted"] = True
        return out, tr
    finally:
        shutil.rmtree(work, ignore_errors=True)


def check(rep, pid, tier, seed):
    rep.assumptions += [
        "A2: rows are compared as bit patterns (nine float64 + time label); A3: Interp(term) = fresh Integrator with the default capacity, one integrate() call with exactly the term's increments",
        "the oracle is the property's own (single-shot integration by the same code); numeric correctness of the mechanisation is C01 and not claimed",
        "set_pva is given Pva Series with the nine documented labels in any order; the constructor gets the documented order",
    ]
    model_check(rep, pid, tier)
    run_legs(rep, pid, tier, seed)
    rep.rule = ("cases = call histories (TLC-simulated behaviours of Integrator.tla replayed on the real class; seeded random histories of 30 calls over 40 "
                "increments; histories crossing the default 10 000-row capacity); distinct = distinct (capacity, mode, operation sequence); "
                "non-trivial = crosses a buffer-growth boundary or contains set_pva (replay), every recorded episode (they all do)")


def replay(rep, pid, case):
    m = filt.init_worker()
    if case["kind"] == "replay":
        t = case["task"]
        t["ops"] = [tuple(o) for o in t["ops"]]
        out = integ.replay_behaviour(m, t)
        rep.traces += 1
        if out["bad"]:
            rep.violation("%s Integrator after history %s: %s" % (pid, t["ops"], out["bad"][0]), dict(kind="replay", task=_light(t), problems=out["bad"]))
    elif case["kind"] == "episode":
        t = case["task"]
        r = integ.record_episode(m, t)
        accepted, _, _ = validate_episodes([r], t["cap0"], t["alt"])
        rep.traces += 1
        if r["exc"] or r["tid"] not in accepted:
            rep.violation("%s Integrator: recorded call history (seed %d) rejected; %s" % (pid, t["seed"], r["exc"]), dict(kind="episode", task=t))
    else:
        t = case["task"]
        r = integ.record_big_episode(m, t)
        verd, _ = validate_big([r])
        rep.traces += 1
        v = verd.get(r["tid"], dict(failing={"no verdict"}))
        if v["failing"]:
            rep.violation("C02 Integrator: history crossing the default capacity fails %s" % sorted(v["failing"]), dict(kind="big", task=t))
