"""C04: the INS error model is the linearisation of actual strapdown error growth - the kinematic skeleton decided on an exact domain,
the remaining blocks measured on the real integrator.

Leg M  ErrorDynamics.tla over (altitude mode x 16 cube-group attitudes with pitch 0 x integer velocities x integer specific forces):
       the code-shaped blocks of system_matrices that contain no Earth parameter - both coupling matrices entirely, d DR / d DV,
       d DR / d PHI, d DV / d PHI = -[g x] with a formal integer gravity - equal the first-order TIME DERIVATIVE of the error state
       under the library's own correction convention along the navigation kinematics, derived in integer coefficient-matrix algebra
       over the 15 unknowns (DR, DV, PHI, gyro error, accelerometer error) (DynamicsIsDerivative); the specific force cancels
       (SpecificForceFree, the documented feature of the modified phi-angle model); CouplingShape; GyroOrthogonal; Dims.
       Two variants must be rejected: GyroVelFlip (a sign slip in B_gyro) and Premise2D = FALSE (without altitude the model is the
       derivative only for a vehicle in vertical equilibrium - a premise the model makes explicit, DESIGN.md s6 C04).
Leg R  every configuration, both sides bound to the code:
       code side     system_matrices(pva) (Series and stacked Trajectory form) equals the printed skeleton - exactly on the position
                     rows, the 3D gravity block and both coupling matrices; every other entry of F is Earth-rate sized;
       derived side  the sensitivity of ONE STEP OF THE REAL Integrator to initial errors (applied with the real correct_pva) and to
                     constant gyro / accelerometer errors (added to the increments), read in the library's own error coordinates
                     (transform_to_internal of compute_state_difference), as central differences divided by the step: rounded to
                     integers (gravity block in units of g) it must equal the printed [F | B_gyro | B_accel] - a rounding, not a
                     tuned tolerance.
Numeric predicates (computed by the harness, labelled as such, not TLC-decided) on seeded GENERAL states (any attitude with
       |pitch| <= 70, |lat| <= 80, speeds to 300 m/s, non-zero nominal rotation): every block of the measured sensitivity
       (Richardson-extrapolated in the step) against the model block within the size of the terms the model neglects - stated per
       block in physical terms (Earth rate + transport rate times speed, ...), all at least 30 times above what the unchanged code
       shows; d PHI / d DR is NOT judged (the neglected transport-rate terms are the size of the block).  propagate_errors: zero in /
       zero out, linear, its two tables consistent through the real transforms, first row = the initial error, and its prediction
       agrees with the actual error growth of the real integrator over 200 steps within 1 % per group (observed: below 0.1 %).
"""
import math
from concurrent.futures import ThreadPoolExecutor
import numpy as np
from . import tlc, filt, pool, exc
from .check_c06 import domain_module, ANGLE, LLA, VEL, RPH

INV = ["DynamicsIsDerivative", "SpecificForceFree", "CouplingShape", "GyroOrthogonal", "Dims"]
GI = 7                      # the formal integer gravity of the model
OUT = ['north', 'east', 'down', 'VN', 'VE', 'VD', 'roll', 'pitch', 'heading']
INC = ['dt', 'theta_x', 'theta_y', 'theta_z', 'dv_x', 'dv_y', 'dv_z']
NINE = LLA + VEL + RPH


def _blocks(alt):
    return (dict(DR=[0, 1, 2], DV=[3, 4, 5], PHI=[6, 7, 8], GY=[9, 10, 11], AC=[12, 13, 14]) if alt else
            dict(DR=[0, 1], DV=[2, 3], PHI=[4, 5, 6], GY=[7, 8, 9], AC=[10, 11, 12]))


def _pva(m, cfg):
    pd = m["pd"]
    k = cfg["k"]
    vals = dict(lat=(50.0, -33.0, 0.0, 71.5, 84.9, -85.0)[k % 6], lon=(30.0, -120.0, 179.5)[k % 3], alt=(100.0, -50.0, 9000.0)[k % 3],
                VN=float(cfg["vel"][0]), VE=float(cfg["vel"][1]), VD=float(cfg["vel"][2]),
                roll=ANGLE[cfg["rq"]], pitch=0.0, heading=ANGLE[cfg["hq"]])
    labels = NINE if k % 4 != 1 else RPH + LLA + VEL[::-1]
    return pd.Series([vals[c] for c in labels], index=labels, name=float(k % 5))


def _step(m, pva, alt, theta, dv, T, n=1):
    """The state after n steps of the real Integrator (n = 0: the state itself)."""
    if n == 0:
        return pva
    pd = m["pd"]
    it = m["strapdown"].Integrator(pva, alt)
    idx = float(pva.name) + T * np.arange(1, n + 1)
    inc = pd.DataFrame(np.tile(np.hstack([[T], theta, dv]), (n, 1)), index=pd.Index(idx, name="time"), columns=INC)
    return it.integrate(inc).iloc[-1]


def _xof(m, em, pert, nom):
    """The error of `pert` against `nom` in the library's own error-state coordinates."""
    d = m["transform"].compute_state_difference(pert, nom)
    return np.asarray(em.transform_to_internal(nom), float) @ np.asarray(d[OUT].values, float)


def _sens(m, em, alt, pva, theta0, dv0, T, n):
    """Central-difference sensitivity of the state after n steps to the initial error (applied with the real correct_pva) and to
    constant sensor errors (added to the increments): nn x (nn + 6)."""
    nn = 9 if alt else 7
    nom = _step(m, pva, alt, theta0, dv0, T, n)
    h = np.array([64.0] * 3 + [1.0] * 3 + [2.0 ** -9] * 3)
    if not alt:
        h = h[[0, 1, 3, 4, 6, 7, 8]]
    M = np.zeros((nn, nn + 6))
    for j in range(nn):
        x = np.zeros(nn); x[j] = h[j]
        p = em.correct_pva(pva, -x); q = em.correct_pva(pva, x)          # INS = truth "minus a correction": error +x and -x
        p.name = q.name = pva.name
        M[:, j] = (_xof(m, em, _step(m, p, alt, theta0, dv0, T, n), nom) - _xof(m, em, _step(m, q, alt, theta0, dv0, T, n), nom)) / (2 * h[j])
    if n:
        e = 2.0 ** -6
        for j in range(3):
            d = np.zeros(3); d[j] = e * T
            M[:, nn + j] = (_xof(m, em, _step(m, pva, alt, theta0 + d, dv0, T, n), nom) - _xof(m, em, _step(m, pva, alt, theta0 - d, dv0, T, n), nom)) / (2 * e)
            M[:, nn + 3 + j] = (_xof(m, em, _step(m, pva, alt, theta0, dv0 + d, T, n), nom) - _xof(m, em, _step(m, pva, alt, theta0, dv0 - d, T, n), nom)) / (2 * e)
    return M


def _rate(m, em, alt, pva, f_body, w_body, T):
    """Measured [F | B_gyro | B_accel]: (sensitivity after one step of length T - sensitivity after none) / T."""
    theta0 = np.asarray(w_body, float) * T; dv0 = np.asarray(f_body, float) * T
    return (_sens(m, em, alt, pva, theta0, dv0, T, 1) - _sens(m, em, alt, pva, theta0, dv0, T, 0)) / T


def _one(m, cfg):
    pd = m["pd"]; EMod = m["error_model"]; earth = m["pyins"].earth; Tr = m["transform"]
    probs = []
    alt = cfg["alt"]; nn = 9 if alt else 7
    B = _blocks(alt)
    em = EMod.InsErrorModel(alt)
    pva = _pva(m, cfg)
    before = pva.copy()
    g = float(earth.gravity(pva['lat'], pva['alt']))
    Fs = np.array(cfg["F"], float); Bg_s = np.array(cfg["Bg"], float); Ba_s = np.array(cfg["Ba"], float)
    F, Bg, Ba = (np.asarray(a, float) for a in em.system_matrices(pva))
    if F.shape != (nn, nn) or Bg.shape != (nn, 3) or Ba.shape != (nn, 3):
        return ["shapes: F %s, B_gyro %s, B_accel %s (expected (%d, %d), (%d, 3), (%d, 3))" % (F.shape, Bg.shape, Ba.shape, nn, nn, nn, nn)]
    if not pva.equals(before):
        probs.append("system_matrices modified the pva it was given")
    sc = 1.0 + float(np.abs(cfg["vel"]).max())
    if not np.allclose(Bg, Bg_s, rtol=0, atol=1e-12 * sc):
        i = np.unravel_index(np.abs(Bg - Bg_s).argmax(), Bg.shape)
        probs.append("B_gyro differs from the model at (state %d, axis %d): %r vs %r" % (i[0], i[1], Bg[i], Bg_s[i]))
    if not np.allclose(Ba, Ba_s, rtol=0, atol=1e-12 * sc):
        i = np.unravel_index(np.abs(Ba - Ba_s).argmax(), Ba.shape)
        probs.append("B_accel differs from the model at (state %d, axis %d): %r vs %r" % (i[0], i[1], Ba[i], Ba_s[i]))
    Fn = F.copy()
    Fn[np.ix_(B["DV"], B["PHI"])] *= GI / g                  # the gravity block in units of g
    exact = np.zeros((nn, nn), bool)
    exact[np.ix_(B["DR"], B["DV"] + B["PHI"])] = True
    if alt:
        exact[np.ix_(B["DV"], B["PHI"])] = True              # (without altitude this block carries Coriolis terms through the DV3 constraint)
    dev = np.abs(Fn - Fs)
    if (dev[exact] > 1e-12 * sc * GI).any():
        i = np.unravel_index(np.where(exact, dev, 0).argmax(), dev.shape)
        probs.append("F differs from the model at (state %d, state %d): %r vs %r (gravity block in units of g = %.6f)" % (i[0], i[1], Fn[i], Fs[i], g))
    elif (dev > 2e-3 * sc).any():
        i = np.unravel_index(dev.argmax(), dev.shape)
        probs.append("F has an entry that is neither of the kinematic skeleton nor Earth-rate sized at (state %d, state %d): %r (model %r)" % (i[0], i[1], Fn[i], Fs[i]))
    if cfg["k"] % 3 == 0:                  # the stacked (Trajectory) form
        other = pva.copy(); other['heading'] = ANGLE[(cfg["hq"] + 1) % 4]; other['VE'] += 2.0
        traj = pd.DataFrame([pva.values, other.values], index=pd.Index([0.0, 1.0], name="time"), columns=list(pva.index))
        St = em.system_matrices(traj)
        S1 = em.system_matrices(other)
        ok = all(np.asarray(St[i]).shape == (2,) + np.asarray((F, Bg, Ba)[i]).shape for i in range(3)) and \
            all(np.allclose(np.asarray(St[i])[0], (F, Bg, Ba)[i], rtol=1e-14, atol=1e-18) and np.allclose(np.asarray(St[i])[1], np.asarray(S1[i]), rtol=1e-14, atol=1e-18) for i in range(3))
        if not ok:
            probs.append("system_matrices(Trajectory) is not the stack of the per-row matrices")
    # derived side: one step of the real integrator
    if not alt and cfg["vel"][2] != 0:
        return probs                       # the no-altitude mode is about states with zero vertical velocity
    C = np.asarray(Tr.mat_from_rph(pva[RPH]), float)
    fn = C @ np.array(cfg["f"], float)
    if not alt:
        fn[2] = -g                         # the premise of the mode: vertical equilibrium (Premise2D)
    f_body = C.T @ fn
    w_body = (0.0, 0.0, 0.0) if cfg["k"] % 2 else (0.25, -0.5, 0.125)
    Gm = _rate(m, em, alt, pva[NINE], f_body, w_body, 2.0 ** -11)
    Gm[np.ix_(B["DV"], B["PHI"])] *= GI / g
    want = np.hstack([Fs, Bg_s, Ba_s])
    frac = np.abs(Gm - np.round(Gm)).max()
    if frac > 0.1:
        probs.append("the measured one-step sensitivity of the integrator is not integral on the exact domain (max fraction %.3g)" % frac)
    elif not np.array_equal(np.round(Gm), want):
        d = np.abs(np.round(Gm) - want); i = np.unravel_index(d.argmax(), d.shape)
        names = em.states + ['gyro_x', 'gyro_y', 'gyro_z', 'accel_x', 'accel_y', 'accel_z']
        probs.append("the error model is not the derivative of the integrator's error growth: d %s/dt per unit %s is %g on the real integrator, the model says %g%s"
                     % (em.states[i[0]], names[i[1]], np.round(Gm)[i], want[i], " (units of g/%d)" % GI if i[0] in B["DV"] and i[1] in B["PHI"] else ""))
    return probs


# ---------------------------------------------------------------------------------------------
# numeric predicates on general states

def _tolerances(alt, lat, speed, wnorm):
    """Per block: the size of the terms the model neglects (physical scales), with a margin of at least 30 over what the unchanged
    code shows on 72 seeded states."""
    Om, R = 7.292115e-5, 6.37e6
    rho = speed / (R * max(math.cos(math.radians(lat)), 0.1))       # transport rate, vertical component included
    wE = 2 * Om + rho
    return {
        ("DR", "DR"): 10 * rho + 1e-5,            # the NED frame of DR turns with the transport rate: neglected
        ("DR", "DV"): 1e-4,
        ("DR", "PHI"): 1e-3 * speed + 5e-3,
        ("DR", "GY"): 1e-3, ("DR", "AC"): 2e-3,
        ("DV", "DR"): 1e-7,                       # position dependence of Earth rate, transport rate and gravity direction: neglected
        ("DV", "DV"): 1e-8,
        ("DV", "PHI"): 2 * wE * speed + 5e-3,     # phi x (Coriolis acceleration): neglected
        ("DV", "GY"): 1e-4 * speed + 1e-3, ("DV", "AC"): 1e-6,
        ("PHI", "DR"): None,                      # not judged: the neglected transport-rate terms are the size of the block itself
        ("PHI", "DV"): 1e-10,
        ("PHI", "PHI"): 1e-7 + 2e-4 * wnorm,
        ("PHI", "GY"): 1e-4, ("PHI", "AC"): 1e-8,
    }


def _general_state(m, rng, k):
    pd = m["pd"]; earth = m["pyins"].earth; Tr = m["transform"]
    alt = bool(k % 2)
    vals = [float(rng.uniform(-80, 80)), float(rng.uniform(-179, 179)), float(rng.uniform(-100, 5000))] + ((5.0 if k % 3 else 100.0) * rng.randn(3)).tolist() + \
           [float(rng.uniform(-180, 180)), float(rng.uniform(-70, 70)), float(rng.uniform(-180, 180))]
    sp = float(np.linalg.norm(vals[3:6]))
    if sp > 300.0:
        vals[3:6] = [v * 300.0 / sp for v in vals[3:6]]
    if not alt:
        vals[5] = 0.0
    pva = pd.Series(vals, index=NINE, name=0.0)
    C = np.asarray(Tr.mat_from_rph(pva[RPH]), float)
    g = float(earth.gravity(pva['lat'], pva['alt']))
    fn = np.array([rng.randn() * 3, rng.randn() * 3, -g + (rng.randn() * 2 if alt else 0.0)])
    w = rng.randn(3) * 0.2 if k % 4 < 2 else np.zeros(3)
    return alt, pva, C.T @ fn, w


def _general_chunk(m, task):
    seed, ks = task
    EMod = m["error_model"]
    out = []
    for k in ks:
        rng = np.random.RandomState((seed * 7919 + k * 104729 + 3) % (2 ** 31))
        alt, pva, f_body, w = _general_state(m, rng, k)
        tag = "with_altitude=%s lat %.1f v=%s rph=%s |w|=%.2f" % (alt, pva['lat'], np.round(pva[VEL].values.astype(float), 1).tolist(),
                                                                 np.round(pva[RPH].values.astype(float), 1).tolist(), float(np.linalg.norm(w)))
        try:
            em = EMod.InsErrorModel(alt); nn = 9 if alt else 7
            A = np.hstack([np.asarray(a, float) for a in em.system_matrices(pva)])
            T0 = 2.0 ** -8
            Gr = 2 * _rate(m, em, alt, pva, f_body, w, T0 / 2) - _rate(m, em, alt, pva, f_body, w, T0)       # Richardson: the O(T) terms removed
            B = _blocks(alt)
            tol = _tolerances(alt, float(pva['lat']), float(np.linalg.norm(pva[VEL].values.astype(float))), float(np.linalg.norm(w)))
            worst = {}
            for (a, b), t in tol.items():
                if t is None:
                    continue
                d = float(np.abs(Gr[np.ix_(B[a], B[b])] - A[np.ix_(B[a], B[b])]).max())
                worst["%s/%s" % (a, b)] = d / t
                if d > t:
                    i = np.unravel_index(np.abs(Gr[np.ix_(B[a], B[b])] - A[np.ix_(B[a], B[b])]).argmax(), (len(B[a]), len(B[b])))
                    out.append((k, "general: block d %s / d %s of the model disagrees with the measured sensitivity of the integrator by %.3g (neglected terms: %.3g): "
                                   "model %.6g, measured %.6g (%s)" % (a, b, d, t, A[B[a][i[0]], B[b][i[1]]], Gr[B[a][i[0]], B[b][i[1]]], tag), None))
                    break
            else:
                out.append((k, None, worst))
        except Exception as e:
            if not exc.entered_pyins(e):
                raise
            out.append((k, "general: %s: the library raised %s" % (tag, exc.describe(e)), None))
    return out


def _propagation_chunk(m, task):
    """propagate_errors: structural clauses and agreement with the actual error growth of the real integrator."""
    seed, ks = task
    pd = m["pd"]; EMod = m["error_model"]; SD = m["strapdown"]; Tr = m["transform"]; sim = m["sim"]
    out = []
    for k in ks:
        rng = np.random.RandomState((seed * 6007 + k * 15485863 + 11) % (2 ** 31))
        alt, pva, f_body, w = _general_state(m, rng, k)
        w = rng.randn(3) * 0.05
        tag = "with_altitude=%s lat %.1f |v|=%.0f" % (alt, pva['lat'], float(np.linalg.norm(pva[VEL].values.astype(float))))
        try:
            n, dt = 200, 0.01
            t0 = float(rng.choice([0.0, 1000.0]))
            pva.name = t0

            # a third of the runs are sampled irregularly (the first interval is not representative of the rest: seeded change C04_2)
            dts = np.full(n, dt) if k % 3 != 1 else np.hstack([[dt / 4], rng.uniform(dt / 4, 2 * dt, n - 1)])

            def traj(p, th, dv):
                it = SD.Integrator(p, alt)
                inc = pd.DataFrame(np.hstack([dts[:, None], np.outer(dts / dt, th), np.outer(dts / dt, dv)]), index=pd.Index(t0 + np.cumsum(dts), name="time"), columns=INC)
                it.integrate(inc)
                return it.trajectory
            th0, dv0 = w * dt, f_body * dt
            nom = traj(pva, th0, dv0)
            sign = 1 if k % 2 else -1
            e0 = np.array([30.0, -20.0, 10.0, 0.3, -0.2, 0.1, 0.05, -0.03, 0.1]) * sign
            if not alt:
                e0[[2, 5]] = 0.0
            ge, ae = np.array([1e-4, -2e-4, 1.5e-4]) * sign, np.array([0.02, -0.01, 0.015])
            e = pd.Series(e0, index=OUT)
            snap = (nom.copy(), e.copy(), ge.copy(), ae.copy())
            pred, me = EMod.propagate_errors(nom, e, ge, ae, with_altitude=alt)
            em = EMod.InsErrorModel(alt)
            p = None
            if not (nom.equals(snap[0]) and e.equals(snap[1]) and np.array_equal(ge, snap[2]) and np.array_equal(ae, snap[3])):
                p = "propagate_errors modified an argument"
            elif list(pred.index) != list(nom.index) or list(me.index) != list(nom.index) or list(pred.columns) != OUT or list(me.columns) != list(em.states):
                p = "propagate_errors returns tables indexed %s.. / columns %s, %s" % (list(pred.index)[:2], list(pred.columns), list(me.columns))
            elif not np.allclose(me.values[0], np.asarray(em.transform_to_internal(nom.iloc[0]), float) @ e0, rtol=1e-12, atol=1e-12):
                p = "the first row of the model errors is not the initial error in internal coordinates"
            elif not np.allclose(pred.values, np.einsum('nij,nj->ni', np.asarray(em.transform_to_output(nom), float), me.values), rtol=1e-10, atol=1e-12):
                p = "the two tables of propagate_errors are not related by transform_to_output"
            else:
                z, zm = EMod.propagate_errors(nom, None, with_altitude=alt)
                if np.any(z.values) or np.any(zm.values):
                    p = "propagate_errors without errors does not return zeros"
                else:
                    half, _ = EMod.propagate_errors(nom, e * 0.5, ge * 0.5, ae * 0.5, with_altitude=alt)
                    only, _ = EMod.propagate_errors(nom, e, with_altitude=alt)
                    sens, _ = EMod.propagate_errors(nom, None, ge, ae, with_altitude=alt)
                    scale = np.abs(pred.values).max(axis=0) + 1e-300
                    if (np.abs(half.values * 2 - pred.values).max(axis=0) > 1e-9 * scale).any() or (np.abs(only.values + sens.values - pred.values).max(axis=0) > 1e-9 * scale).any():
                        p = "propagate_errors is not linear in its error arguments"
            rel = None
            if p is None:
                q = sim.perturb_pva(pva, e); q.name = t0
                pert = traj(q, th0 + ge * dt, dv0 + ae * dt)
                act = np.asarray(Tr.compute_state_difference(pert, nom)[OUT].values, float)[-1]
                pr = pred.values[-1]
                grp = [slice(0, 3), slice(3, 6), slice(6, 9)]
                rel = [float(np.abs(act[s] - pr[s]).max() / max(np.abs(pr[s]).max(), 1e-12)) for s in grp]
                if max(rel) > 1e-2:
                    i = int(np.argmax(rel))
                    p = ("propagate_errors does not predict the actual error growth of the integrator over %d steps: %s errors %s predicted, %s actual (relative deviation %.3g; first-order agreement is below 1e-3)"
                         % (n, ("position", "velocity", "attitude")[i], np.round(pr[grp[i]], 5).tolist(), np.round(act[grp[i]], 5).tolist(), rel[i]))
            out.append((k, None if p is None else "propagation: %s (%s)" % (p, tag), rel))
        except Exception as ex_:
            if not exc.entered_pyins(ex_):
                raise
            out.append((k, "propagation: %s: the library raised %s" % (tag, exc.describe(ex_)), None))
    return out


def replay_configs(m, chunk):
    out = []
    for cfg in chunk:
        try:
            probs = _one(m, cfg)
        except Exception as e:
            if not exc.entered_pyins(e):
                raise                        # a defect of the harness: machinery error, never a violation
            probs = ["the library raised " + exc.describe(e)]
        if probs:
            out.append((cfg, probs))
    return out


def _dispatch(m, task):
    kind, payload = task
    if kind == "cfg":
        return kind, replay_configs(m, payload)
    if kind == "general":
        return kind, _general_chunk(m, payload)
    return kind, _propagation_chunk(m, payload)


def check(rep, pid, tier, seed):
    rep.assumptions += [
        "decided (TLC + both-sided binding): the kinematic skeleton of the model - B_gyro, B_accel and the blocks of F without Earth parameters - on cube-group attitudes with "
        "pitch 0 and integer velocities",
        "without altitude the model is the derivative only under vertical equilibrium (vertical specific force = -g): the model states the premise (Premise2D), the variant "
        "without it is rejected by TLC, and the replay measures the integrator under it",
        "the Earth-rate / curvature / gravity-gradient blocks of F are judged by numeric predicates computed by the harness (measured sensitivity of the real integrator, "
        "tolerance per block = the physical size of the neglected terms) - labelled `numeric_predicates` in the evidence, not TLC-decided; d PHI / d DR is not judged",
        "errors are measured in the library's own coordinates (correct_pva to apply, transform_to_internal of compute_state_difference to read): their mutual consistency is C05",
        "NOT decided: the agreement over long horizons, near the pitch singularity and at the poles",
    ]
    dom = domain_module(tier, seed)

    def one(a):
        return tlc.run_tlc("ErrorDynamics", dict(spec="Spec", invariants=INV, constants=dict(RollQ={0, 1, 2, 3}, HeadQ={a}, G=GI, Premise2D=True, GyroVelFlip=False)),
                           workers=2, timeout=3000, heap="2g", coverage=True, extra_files={"MeasDomain.tla": dom})
    with ThreadPoolExecutor(4) as ex:
        results = list(ex.map(one, (0, 1, 2, 3)))
    cfgs = {}
    ok = True
    for a, r in zip((0, 1, 2, 3), results):
        rep.add_tlc("ErrorDynamics[heading %g]" % ANGLE[a], r)
        if not r.ok:
            ok = False
            rep.machinery("leg M: ErrorDynamics violates %s: %s" % (r.violated, r.trace[-1][1] if r.trace else "?"))
        for line in r.prints:
            v = tlc.parse_value(line)
            if isinstance(v, tuple) and v and v[0] == "DYN":
                _, alt, rq, hq, vel, f, F, Bg, Ba = v
                key = (bool(alt), rq, hq, tuple(vel))
                cfgs.setdefault(key, []).append(dict(alt=bool(alt), rq=rq, hq=hq, vel=list(vel), f=list(f), F=[list(r_) for r_ in F], Bg=[list(r_) for r_ in Bg],
                                                     Ba=[list(r_) for r_ in Ba]))
    rep.exhaustive = ok
    for variant, consts in (("GyroVelFlip = TRUE", dict(Premise2D=True, GyroVelFlip=True)), ("Premise2D = FALSE", dict(Premise2D=False, GyroVelFlip=False))):
        c = dict(RollQ={0, 1}, HeadQ={0, 1}, G=GI); c.update(consts)
        r = tlc.run_tlc("ErrorDynamics", dict(spec="Spec", invariants=["DynamicsIsDerivative"], constants=c), workers=2, timeout=900, heap="2g", extra_files={"MeasDomain.tla": dom})
        rep.add_tlc("ErrorDynamics[%s] (sensitivity)" % variant, r, note="must violate DynamicsIsDerivative")
        if r.violated == "DynamicsIsDerivative":
            rep.extra.setdefault("spec_sensitivity", []).append(dict(variant=variant, violated=r.violated, counterexample=tlc.to_jsonable(r.trace[-1][1] if r.trace else {})))
        else:
            rep.vacuity.append("the variant %s of the model was not rejected" % variant)
    # the printed matrices do not depend on the specific force (SpecificForceFree): one specific force per (mode, attitude, velocity) is measured, chosen by the seed
    cfgs = [sorted(v, key=lambda c: c["f"])[(seed + sum(abs(x) for x in key[3]) + key[1] + key[2]) % len(v)] for key, v in sorted(cfgs.items())]
    for k, c in enumerate(cfgs):
        c["k"] = k
    if not cfgs:
        rep.machinery("ErrorDynamics printed no configuration")
        return
    ng = 24 if tier == "quick" else 400
    npg = 12 if tier == "quick" else 120
    tasks = [("cfg", cfgs[i::24]) for i in range(24)]
    tasks += [("general", (seed, list(range(i, ng, 12)))) for i in range(12)]
    tasks += [("propagation", (seed, list(range(i, npg, 6)))) for i in range(6)]
    n_bad = 0
    worst = {}
    prop_worst = [0.0, 0.0, 0.0]
    n_gen = n_prop = 0
    for k, status, out in pool.run_tasks(_dispatch, tasks, init=filt._imports, task_timeout=3000):
        if status != "done":
            rep.machinery("leg R: worker %s on a chunk: %s" % (status, out))
            continue
        kind, res = out
        if kind == "cfg":
            for cfg, probs in res:
                n_bad += 1
                for p in probs:
                    rep.violation("C04 InsErrorModel(with_altitude=%s) at roll %g, heading %g, velocity %s: %s" % (cfg["alt"], ANGLE[cfg["rq"]], ANGLE[cfg["hq"]], cfg["vel"], p),
                                  dict(mode="config", cfg=cfg), key=p[:40])
        elif kind == "general":
            for kk, p, w in res:
                n_gen += 1
                if p:
                    rep.violation("C04 numeric predicate, %s" % p, dict(mode="general", seed=seed, k=kk), key=p[:60])
                else:
                    for b, v in w.items():
                        worst[b] = max(worst.get(b, 0.0), v)
        else:
            for kk, p, rel in res:
                n_prop += 1
                if p:
                    rep.violation("C04 numeric predicate, %s" % p, dict(mode="propagation", seed=seed, k=kk), key=p[:60])
                elif rel:
                    prop_worst = [max(a, b) for a, b in zip(prop_worst, rel)]
    rep.extra["numeric_predicates"] = dict(
        general_states=n_gen, propagation_runs=n_prop,
        worst_deviation_over_tolerance_per_block={b: round(v, 4) for b, v in sorted(worst.items())},
        worst_relative_deviation_of_propagate_errors_from_actual_growth=dict(position=prop_worst[0], velocity=prop_worst[1], attitude=prop_worst[2]),
        note="computed by the harness (central differences through the real Integrator, Richardson in the step), not TLC-decided; d PHI / d DR not judged")
    rep.traces += len(cfgs) + n_gen + n_prop
    rep.evaluations += len(cfgs) + n_gen + n_prop
    for c in cfgs:
        rep.nontrivial.add((c["alt"], c["rq"], c["hq"], tuple(c["vel"])))
    rep.rule = ("one configuration = (altitude mode, roll, heading, velocity, specific force); system_matrices is compared with the model's skeleton and the one-step sensitivity "
                "of the real Integrator, rounded, with the model's [F | B_gyro | B_accel]")
    rep.sample("3D roll 90 heading 180 v = (3,-2,1): measured d DV/dt per unit PHI = [[0, g, 0], [-g, 0, 0], [0, 0, 0]], per unit gyro error = [v x] C")
    rep.extra["configurations"] = len(cfgs)
    rep.extra["configurations_with_disagreement"] = n_bad


def replay(rep, pid, case):
    m = filt._imports()
    mode = case.get("mode")
    if mode == "general":
        for k, p, _ in _general_chunk(m, (case["seed"], [case["k"]])):
            if p:
                rep.violation("C04 replay: %s" % p, case)
        return
    if mode == "propagation":
        for k, p, _ in _propagation_chunk(m, (case["seed"], [case["k"]])):
            if p:
                rep.violation("C04 replay: %s" % p, case)
        return
    for cfg, probs in replay_configs(m, [case["cfg"]]):
        for p in probs:
            rep.violation("C04 replay: %s" % p, case)
