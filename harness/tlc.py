"""Running TLC and reading what it prints.

* run_tlc(): exhaustive or simulation run of <module>.tla with a generated .cfg, parsed statistics
  (distinct states, generated states = transitions, depth, per-action coverage, violated property,
  PrintT lines).
* parse_value(): TLA+ value syntax (as TLC prints states) -> Python (int, bool, str, tuple for
  sequences, frozenset for sets, dict for records and functions).
* parse_trace_file(): the `STATE_n == ...` files written by `-simulate file=...`.
* parse_error_trace(): the counterexample TLC prints on stdout.
"""
import os, re, shutil, subprocess, tempfile, time, json

SPEC_DIR = os.path.join(os.path.dirname(os.path.dirname(os.path.abspath(__file__))), "spec")
JAVA_CP = "/opt/veriftools/tla/tla2tools.jar:/opt/veriftools/tla/CommunityModules-deps.jar"


class TlcError(Exception):
    """TLC could not be run or its output could not be understood (machinery failure, exit 2)."""


def tla_str(v):
    """Python value -> TLA+ expression text (for cfg constants)."""
    if isinstance(v, bool):
        return "TRUE" if v else "FALSE"
    if isinstance(v, int):
        return str(v)
    if isinstance(v, str):
        return '"%s"' % v
    if isinstance(v, (set, frozenset)):
        return "{" + ", ".join(sorted((tla_str(x) for x in v), key=lambda s: (len(s), s))) + "}"
    if isinstance(v, (list, tuple)):
        return "<<" + ", ".join(tla_str(x) for x in v) + ">>"
    if isinstance(v, dict):
        return "[" + ", ".join("%s |-> %s" % (k, tla_str(x)) for k, x in v.items()) + "]"
    raise TypeError(v)


class Raw(str):
    """cfg text used verbatim (model values, operator names for `<-`)."""


def write_cfg(path, *, spec=None, init=None, next=None, constants=None, invariants=(), properties=(),
              constraints=(), action_constraints=(), view=None, postcondition=None, deadlock=False,
              symmetry=None):
    lines = []
    if spec:
        lines.append("SPECIFICATION %s" % spec)
    else:
        lines.append("INIT %s" % init)
        lines.append("NEXT %s" % next)
    if constants:
        lines.append("CONSTANTS")
        for k, v in constants.items():
            if isinstance(v, Raw):
                lines.append("  %s %s" % (k, v))
            else:
                lines.append("  %s = %s" % (k, tla_str(v)))
    for i in invariants:
        lines.append("INVARIANT %s" % i)
    for p in properties:
        lines.append("PROPERTY %s" % p)
    for c in constraints:
        lines.append("CONSTRAINT %s" % c)
    for c in action_constraints:
        lines.append("ACTION_CONSTRAINT %s" % c)
    if view:
        lines.append("VIEW %s" % view)
    if symmetry:
        lines.append("SYMMETRY %s" % symmetry)
    if postcondition:
        lines.append("POSTCONDITION %s" % postcondition)
    lines.append("CHECK_DEADLOCK %s" % ("TRUE" if deadlock else "FALSE"))
    with open(path, "w") as f:
        f.write("\n".join(lines) + "\n")


_RE_STATES = re.compile(r"^(\d+) states generated, (\d+) distinct states found, (\d+) states left on queue", re.M)
_RE_DEPTH = re.compile(r"The depth of the complete state graph search is (\d+)")
_RE_INIT = re.compile(r"Finished computing initial states: (\d+) distinct state")
_RE_COV_ACTION = re.compile(r"^<(\w+) line (\d+), col \d+ to line \d+, col \d+ of module (\w+)>: (\d+):(\d+)", re.M)
_RE_VIOL_INV = re.compile(r"Error: Invariant (\w+) is violated")
_RE_VIOL_ACT = re.compile(r"Error: Action property (\w+) is violated")
_RE_VIOL_TEMP = re.compile(r"Error: Temporal properties were violated")
_RE_SIM = re.compile(r"The number of states generated: (\d+)")


def _depth(l):
    return (l.count("<<") - l.count(">>") + l.count("{") - l.count("}") + l.count("[") - l.count("]")
            + l.count("(") - l.count(")"))


def _collect_prints(out):
    """PrintT output: values may be pretty-printed over several lines; join until brackets balance.
    (The specifications print no strings that contain brackets, so counting is exact.)"""
    res, cur, depth = [], None, 0
    for l in out.splitlines():
        if cur is None:
            if not (l.startswith("<<") or l.startswith('"')):
                continue
            cur, depth = [], 0
        cur.append(l.strip())
        depth += _depth(l)
        if depth <= 0:
            res.append(" ".join(cur))
            cur = None
    return res


class TlcResult:
    def __init__(self):
        self.ok = False
        self.states = 0          # distinct states
        self.generated = 0       # states generated (= transitions examined + initial states)
        self.initial = 0
        self.depth = 0
        self.violated = None     # name of violated invariant / property, or "deadlock", "postcondition"
        self.coverage = {}       # action name -> (distinct, total)
        self.prints = []         # raw PrintT lines
        self.stdout = ""
        self.wall_s = 0.0
        self.trace = None        # counterexample: list of (action label, state dict)
        self.cmd = ""

    @property
    def transitions(self):
        return max(self.generated - self.initial, 0)

    def summary(self):
        return dict(states=self.states, generated=self.generated, initial=self.initial, depth=self.depth,
                    violated=self.violated, wall_s=round(self.wall_s, 2),
                    coverage={k: list(v) for k, v in self.coverage.items()})


def run_tlc(module, cfg_kwargs, *, workers=16, simulate=None, depth=None, seed=None, coverage=False,
            env=None, timeout=3600, spec_dir=SPEC_DIR, extra_files=None, keep=False, dfs=False, heap="8g",
            fp=None):
    """Run TLC on spec/<module>.tla in a scratch copy of the spec directory.

    simulate: None, or dict(num=N, file=<prefix or None>) for `-simulate`.
    Returns TlcResult; raises TlcError if TLC did not finish in an understood way."""
    work = tempfile.mkdtemp(prefix="vtlc_")
    try:
        for f in os.listdir(spec_dir):
            if f.endswith(".tla"):
                shutil.copy(os.path.join(spec_dir, f), work)
        for fname, content in (extra_files or {}).items():      # generated modules (instance tables)
            with open(os.path.join(work, fname), "w") as f:
                f.write(content)
        cfg = os.path.join(work, module + ".cfg")
        write_cfg(cfg, **cfg_kwargs)
        # several TLC processes run side by side: keep each JVM's GC threads in proportion to its workers
        cmd = ["java", "-XX:+UseParallelGC", "-XX:ParallelGCThreads=%d" % max(1, min(int(workers), 4)), "-Xmx" + heap]
        if dfs:
            cmd.append("-Dtlc2.tool.queue.IStateQueue=StateDeque")
        cmd += ["-cp", JAVA_CP, "tlc2.TLC", "-workers", str(workers), "-metadir", os.path.join(work, "meta"),
                "-noGenerateSpecTE", "-config", cfg]
        if coverage:
            cmd += ["-coverage", "1"]
        if seed is not None:
            cmd += ["-seed", str(seed)]
        if fp is not None:
            cmd += ["-fp", str(fp)]
        sim_dir = None
        if simulate is not None:
            arg = "num=%d" % simulate["num"]
            if simulate.get("file"):
                sim_dir = os.path.join(work, "sim")
                os.makedirs(sim_dir)
                arg = "file=%s/tr," % sim_dir + arg
            cmd += ["-simulate", arg]
            if depth:
                cmd += ["-depth", str(depth)]
        cmd.append(os.path.join(work, module + ".tla"))
        e = dict(os.environ)
        e.pop("JAVA_TOOL_OPTIONS", None)
        if env:
            e.update(env)
        t0 = time.time()
        if simulate is not None:
            timeout = min(timeout, 900 + simulate["num"] // 5)    # a simulator whose worker thread died waits forever
        try:
            p = subprocess.run(cmd, cwd=work, env=e, capture_output=True, text=True, timeout=timeout)
        except subprocess.TimeoutExpired:
            raise TlcError("TLC timed out after %s s: %s" % (timeout, module))
        r = TlcResult()
        r.cmd = " ".join(cmd[cmd.index("tlc2.TLC"):]).replace(work + "/", "")
        r.wall_s = time.time() - t0
        out = p.stdout
        r.stdout = out
        m = _RE_STATES.findall(out)
        if m:
            r.generated, r.states = int(m[-1][0]), int(m[-1][1])
        m = _RE_INIT.search(out)
        if m:
            r.initial = int(m.group(1))
        m = _RE_DEPTH.search(out)
        if m:
            r.depth = int(m.group(1))
        m = _RE_SIM.search(out)
        if m and simulate is not None:
            r.generated = int(m.group(1))
            r.states = r.states or r.generated
        for name, _line, _mod, distinct, total in _RE_COV_ACTION.findall(out):
            a, b = r.coverage.get(name, (0, 0))
            r.coverage[name] = (a + int(distinct), b + int(total))
        r.prints = _collect_prints(out)
        v = _RE_VIOL_INV.search(out) or _RE_VIOL_ACT.search(out)
        if v:
            r.violated = v.group(1)
        elif _RE_VIOL_TEMP.search(out):
            r.violated = "temporal"
        elif "Error: Deadlock reached" in out:
            r.violated = "deadlock"
        elif "Postcondition" in out and "violated" in out or "POSTCONDITION" in out and "violated" in out:
            r.violated = "postcondition"
        if r.violated:
            r.trace = parse_error_trace(out)
        if "Exception in thread" in out or "Exception in thread" in p.stderr:
            raise TlcError("TLC worker thread threw (%s):\n%s" % (module, (out + p.stderr)[-2000:]))
        finished = ("Model checking completed. No error has been found." in out) or \
                   (simulate is not None and ("Finished in" in out or "simulation" in out.lower()))
        if not r.violated and not finished:
            first = out.find("Error:")
            raise TlcError("TLC did not complete (%s):\n%s\n...\n%s\n%s" % (module, out[max(0, first - 300):first + 1500] if first >= 0 else "", out[-1500:], p.stderr[-1000:]))
        if "Error:" in out and not r.violated:
            raise TlcError("TLC reported an error (%s):\n%s" % (module, out[-3000:]))
        r.ok = r.violated is None
        if sim_dir:
            r.sim_files = sorted(os.path.join(sim_dir, f) for f in os.listdir(sim_dir))
            r.sim_traces = [parse_trace_file(f) for f in r.sim_files]
        if keep:
            r.workdir = work
        return r
    finally:
        if not keep:
            shutil.rmtree(work, ignore_errors=True)


# ---------------------------------------------------------------------------------------------
# TLA+ value parser

class _P:
    def __init__(self, s):
        self.s = s
        self.i = 0

    def ws(self):
        while self.i < len(self.s) and self.s[self.i] in " \t\r\n":
            self.i += 1

    def peek(self, k=1):
        self.ws()
        return self.s[self.i:self.i + k]

    def eat(self, t):
        self.ws()
        if not self.s.startswith(t, self.i):
            raise TlcError("TLA value parse error at %d: expected %r in %r" % (self.i, t, self.s[max(0, self.i - 30):self.i + 30]))
        self.i += len(t)

    def value(self):
        v = self.atom()
        # function construction a :> b @@ c :> d
        self.ws()
        if self.s.startswith(":>", self.i):
            d = {}
            k = v
            while True:
                self.eat(":>")
                d[k] = self.atom()
                self.ws()
                if self.s.startswith("@@", self.i):
                    self.eat("@@")
                    k = self.atom()
                else:
                    break
            return d
        return v

    def atom(self):
        self.ws()
        c = self.s[self.i]
        if self.s.startswith("<<", self.i):
            self.eat("<<")
            items = []
            if self.peek(2) != ">>":
                while True:
                    items.append(self.value())
                    if self.peek(1) == ",":
                        self.eat(",")
                    else:
                        break
            self.eat(">>")
            return tuple(items)
        if c == "{":
            self.eat("{")
            items = []
            if self.peek(1) != "}":
                while True:
                    items.append(self.value())
                    if self.peek(1) == ",":
                        self.eat(",")
                    else:
                        break
            self.eat("}")
            return frozenset(_freeze(x) for x in items)
        if c == "[":
            self.eat("[")
            d = {}
            if self.peek(1) != "]":
                while True:
                    self.ws()
                    m = re.compile(r"[A-Za-z_][A-Za-z0-9_]*").match(self.s, self.i)
                    k = m.group(0)
                    self.i = m.end()
                    self.eat("|->")
                    d[k] = self.value()
                    if self.peek(1) == ",":
                        self.eat(",")
                    else:
                        break
            self.eat("]")
            return d
        if c == "(":
            self.eat("(")
            v = self.value()
            self.eat(")")
            return v
        if c == '"':
            j = self.i + 1
            out = []
            while self.s[j] != '"':
                if self.s[j] == "\\":
                    j += 1
                out.append(self.s[j])
                j += 1
            self.i = j + 1
            return "".join(out)
        m = re.compile(r"-?\d+").match(self.s, self.i)
        if m:
            self.i = m.end()
            # range a..b
            if self.s.startswith("..", self.i):
                self.i += 2
                m2 = re.compile(r"-?\d+").match(self.s, self.i)
                self.i = m2.end()
                return frozenset(range(int(m.group(0)), int(m2.group(0)) + 1))
            return int(m.group(0))
        m = re.compile(r"[A-Za-z_][A-Za-z0-9_]*").match(self.s, self.i)
        if m:
            self.i = m.end()
            w = m.group(0)
            return {"TRUE": True, "FALSE": False}.get(w, w)
        raise TlcError("TLA value parse error at %d: %r" % (self.i, self.s[self.i:self.i + 40]))


def _freeze(x):
    if isinstance(x, dict):
        return tuple(sorted((k, _freeze(v)) for k, v in x.items()))
    if isinstance(x, (list, tuple)):
        return tuple(_freeze(v) for v in x)
    return x


def parse_value(text):
    p = _P(text)
    v = p.value()
    p.ws()
    if p.i != len(p.s):
        raise TlcError("trailing text in TLA value: %r" % p.s[p.i:p.i + 40])
    return v


def fun_to_seq(d):
    """A TLC function printed as (1 :> a @@ 2 :> b) is a sequence; convert when the domain is 1..n."""
    if isinstance(d, dict) and d and all(isinstance(k, int) for k in d) and sorted(d) == list(range(1, len(d) + 1)):
        return tuple(d[k] for k in sorted(d))
    return d


def _parse_state_block(block):
    """`/\\ var = value` conjunct list -> dict."""
    state = {}
    parts = re.split(r"^/\\ ", block.strip(), flags=re.M)
    for part in parts:
        part = part.strip()
        if not part:
            continue
        name, _, val = part.partition(" = ")
        state[name.strip()] = parse_value(val.strip())
    return state


def parse_trace_file(path):
    """File written by `-simulate file=`: returns list of (action_label, state dict)."""
    txt = open(path).read()
    out = []
    for m in re.finditer(r"\\\* <?([^\n>]*)>?\s*\nSTATE_\d+ ==[ \t]*\n(.*?)(?=\n\n|\n\\\*|\n=+|\Z)", txt, re.S):
        label = m.group(1).strip()
        out.append((label.split(" ")[0], _parse_state_block(m.group(2))))
    return out


def parse_error_trace(stdout):
    out = []
    for m in re.finditer(r"^State (\d+): <?([^\n>]*)>?\n(.*?)(?=^\s*$)", stdout, re.S | re.M):
        label = m.group(2).strip().split(" ")[0]
        try:
            out.append((label, _parse_state_block(m.group(3))))
        except Exception:
            out.append((label, {"_raw": m.group(3)}))
    return out


def parse_print(line):
    """A PrintT line -> Python value."""
    return parse_value(line)


def to_jsonable(v):
    if isinstance(v, (frozenset, set)):
        return sorted((to_jsonable(x) for x in v), key=lambda x: json.dumps(x, sort_keys=True, default=str))
    if isinstance(v, (tuple, list)):
        return [to_jsonable(x) for x in v]
    if isinstance(v, dict):
        return {str(k): to_jsonable(x) for k, x in v.items()}
    return v
