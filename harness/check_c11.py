"""C11: the feedforward filter is the Kalman recursion of the public model on its own time grid - the discrete part.

What "equals the optimal linear estimator of its model" decomposes into, and where each part is decided:
  (1) every measurement step is the exact conditional-Gaussian update                          -> C07 (KalmanExact.tla)
  (2) every propagation step uses the exact transition / noise integral of (F, Q) over dt       -> C08 (ProcessExact.tla)
  (3) (F, Q), P0 and the measurement matrix are the joint system of the public pieces           -> JointSystem.tla block terms (here)
  (4) the time grid: which rows, which samples, in which order                                  -> C10 (FeedforwardLoop.tla), re-checked here
  (5) the DATAFLOW: every step starts from the (x, P) the previous step produced, is made over exactly the interval the result index
      advances, with the system evaluated at the mid-point state and the increments of that interval; the measurement models see the
      computed trajectory interpolated at the epoch; the result rows (error estimates, compensated trajectory, standard deviations,
      sensor tables, innovations) are those of the (x, P) held when the row was recorded                    -> clause `dataflow` of
      FeedforwardFilterTrace.tla on real executions (here)
Given (1)-(5) the recursion IS the optimal estimator (the Kalman filter theorem); the numeric comparison with an independent batch
Gauss-Markov solve that the property mentions is NOT made (no exact domain: the INS error dynamics are transcendental).
"""
import json
import numpy as np
from . import tlc, filt, pool, check_filters, check_c14

TERM_INV = ["TermsMatchSupport", "NoiseOrder", "NoiseRouting", "DimsAgree", "SensorRowsZero", "NoDirectPositionDrive", "QStructure", "WalkOwnBias"]


def terms_from_tlc(rep, seed):
    r = tlc.run_tlc("JointSystem", dict(spec="Spec", constants=dict(Masks={0, 0b111, 0b111111, 2 ** 18 - 1, 0b101000101 | (0b110100010 << 9)}),
                                        invariants=TERM_INV), workers=4, timeout=1800, coverage=True)
    rep.add_tlc("JointSystem[block terms, 5 x 5 masks x 2 modes]", r)
    if not r.ok:
        rep.machinery("leg M: JointSystem violates %s" % r.violated)
    tables = set()
    for line in r.prints:
        v = tlc.parse_value(line)
        if isinstance(v, tuple) and v and v[0] == "TERMS":
            tables.add(json.dumps(tlc.to_jsonable(v[1:])))
    if len(tables) != 1:
        rep.machinery("JointSystem printed %d distinct term tables" % len(tables))
        return
    F, G, Q, P0, H = json.loads(tables.pop())
    seq = lambda x: [list(r_) if isinstance(r_, (list, tuple)) else r_ for r_ in x]
    got = dict(F=seq(F), G=seq(G), Q=list(Q), P0=seq(P0), H=list(H))
    if got != filt.JOINT_TERMS:
        rep.machinery("the harness' mirror of JointSystem.tla's TermTable is out of date: spec %s vs harness %s" % (json.dumps(got), json.dumps(filt.JOINT_TERMS)))
    rep.extra["joint_terms"] = got


def check(rep, pid, tier, seed):
    rep.assumptions += [
        "decided: the discrete part of C11 - block placement (JointSystem.tla terms interpreted with the public pieces), time grid, and the dataflow of the "
        "recursion on real executions (values compared at 1e-9 relative; bit-identical chains are refinement-only)",
        "NOT decided: numeric equality with an independent one-shot Gauss-Markov solution; it follows from the dataflow + C07 + C08 by the Kalman filter theorem, "
        "which is trusted, and C07/C08 are themselves decided on exact domains only",
        "the joint system is compared at the mid-point state the filter's own interpolation helper returns (its attitude averaging is not re-derived)",
    ]
    terms_from_tlc(rep, seed)
    check_filters.model_check(rep, "ff", tier, liveness=True, deep=False)
    sz = check_filters.SIZES[tier]
    tasks, records, verdicts = check_filters.run_filter_legs(rep, pid, "ff", tier, seed, sz["sim"], sz["rand"])
    n_flow = sum(1 for r_ in records if (r_["obs"].get("flow") or {}).get("n_snaps"))
    n_corr = sum(len(e.get("c", [])) for r_ in records for e in r_["events"])
    n_prop = sum(1 for r_ in records for e in r_["events"] if e["a"] == "A")
    rep.extra["dataflow"] = dict(runs_with_dataflow=n_flow, corrections_chained=n_corr, propagations_chained=n_prop)
    if not n_corr or not n_prop:
        rep.vacuity.append("dataflow: no correction / propagation was observed")
    rep.rule = ("cases = feedforward filter executions (TLC-simulated tick-grid configurations, corner schedules, seeded random float schedules) x sensor-model kinds; "
                "distinct = distinct order type x mode x model kind; non-trivial = at least one measurement sample inside [start, end)")


def replay(rep, pid, case):
    check_filters.replay(rep, pid, case)
