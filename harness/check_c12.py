"""C12: clause 1 (transparent without data) and clause 3 (re-run reproduces results). Clause 2 (first-order agreement with
the feedforward filter) is numeric-asymptotic and NOT decided here (DESIGN.md s6).

Clause 1  FeedbackLoop's invariant Transparent (leg M, all schedules of the C09 bound) + real runs whose measurement
          sets have no sample in [start, end) (none / None / [] / only before start / at or after end) x sensor models with every
          kind of state x time steps, trajectory compared BITWISE with Integrator(initial).integrate(increments);
          the verdict is the clause `transparent` of FeedbackFilterTrace.tla.
Clause 3  FilterRuns.tla: all run sequences (<= MaxRuns) over 2 kinds x 2 data sets x 2 shared model pairs with external
          pokes; behaviours from `tlc -simulate` are executed on the real filters with shared EstimationModel objects and
          every result field of runs with equal (kind, data) is compared bitwise.
"""
import json
import numpy as np
from . import tlc, filt, pool, check_filters, sched


def _fingerprint(res, innovations=True):
    h = []
    for k in ("trajectory", "trajectory_sd", "gyro", "gyro_sd", "accel", "accel_sd"):
        v = res[k]
        h.append(np.asarray(v.values, dtype=float).tobytes() + np.asarray(v.index, dtype=float).tobytes() + ",".join(map(str, v.columns)).encode())
    for name in (sorted(res["innovations"]) if innovations else []):
        v = res["innovations"][name]
        h.append(name.encode() + np.asarray(v.values, dtype=float).tobytes() + np.asarray(v.index, dtype=float).tobytes())
    import hashlib
    return hashlib.sha1(b"|".join(h)).hexdigest()


def run_sequence(m, task):
    """task: dict(seq=[('run', kind, data, model) | ('poke', model)], seed). Executes on the real filters."""
    pd = m["pd"]
    filters, M = m["filters"], m["measurements"]
    rng0 = np.random.RandomState(task["seed"] % (2 ** 31))
    alt = bool(task["alt"])
    data = {}
    for d in (1, 2):
        rng = np.random.RandomState((task["seed"] * 3 + d) % (2 ** 31))
        start = 0.0
        stamps = np.cumsum(rng.choice([0.05, 0.1], size=16))
        pva = filt.make_pva(m, start, rng, 0.0)
        incs = filt.make_increments(m, start, stamps, rng)
        pts = np.hstack([start, stamps])
        mstamps = sorted(set(float(x) for x in rng.choice(pts[:-1], size=6, replace=False)) | {float(pts[3] + 0.02), float(pts[3] + 0.03)})
        meas = [("Position", filt.make_meas_data(m, "Position", mstamps, pva, rng)),
                ("NedVelocity", filt.make_meas_data(m, "NedVelocity", mstamps[::2], pva, rng))]
        traj = pd.DataFrame(np.tile(pva.values, (len(pts), 1)) + 1e-6 * rng.randn(len(pts), 9) * [1, 1, 1e5, 1e4, 1e4, 1e4, 1e3, 1e3, 1e3],
                            index=pd.Index(pts, name="time"), columns=list(pva.index))
        data[d] = dict(pva=pva, incs=incs, meas=meas, traj=traj)
    mkind = "full" if task["seed"] % 2 else "asym"        # both pairs are configured alike (equal runs must give equal results)
    models = {mm: filt.make_models(m, mkind, rng0) for mm in (1, 2)}
    out = []
    est_nonzero = False
    for step in task["seq"]:
        if step[0] == "poke":
            gm, am = models[step[1]]
            gm.update_estimates(1e-3 * rng0.randn(gm.n_states))
            am.update_estimates(1e-3 * rng0.randn(am.n_states))
            continue
        _, kind, d, mm = step
        gm, am = models[mm]
        D = data[d]
        ms = [getattr(M, c)(df, 1.0 if c == "Position" else 0.1) for c, df in D["meas"]]
        try:
            if kind == "fb0":
                form = [None, [], [M.Position(D["meas"][0][1].iloc[:1].set_axis([D["incs"].index[-1] + 5.0]), 1.0)]][(task["seed"] + len(out)) % 3]
                res = filters.run_feedback_filter(D["pva"], 1.0, 0.1, 0.1, 1.0, D["incs"], gm, am, form, time_step=0.2, with_altitude=alt)
                plain = m["strapdown"].Integrator(D["pva"], alt)
                plain.integrate(D["incs"])
                same = bool(plain.trajectory.shape == res.trajectory.shape and
                            (plain.trajectory.values.view(np.int64) == res.trajectory.values.view(np.int64)).all() and
                            (np.asarray(plain.trajectory.index) == np.asarray(res.trajectory.index)).all())
                out.append(dict(kind=kind, data=d, model=mm, fp=_fingerprint(res, innovations=False), plain=same))   # the three data-free forms differ only in the (empty) innovations dict
                continue
            if kind == "fb":
                res = filters.run_feedback_filter(D["pva"], 1.0, 0.1, 0.1, 1.0, D["incs"], gm, am, ms, time_step=0.2, with_altitude=alt)
            else:
                res = filters.run_feedforward_filter(D["traj"], D["traj"], 1.0, 0.1, 0.1, 1.0, gm, am, ms, D["incs"], time_step=0.2, with_altitude=alt)
            out.append(dict(kind=kind, data=d, model=mm, fp=_fingerprint(res)))
            est_nonzero = est_nonzero or bool(np.any(gm.get_estimates().values != 0) or np.any(am.get_estimates().values != 0))
        except Exception as e:
            out.append(dict(kind=kind, data=d, model=mm, fp="EXC %s: %s" % (type(e).__name__, str(e)[:150])))
    return dict(runs=out, est_nonzero=est_nonzero)


def long_transparent_run(m, task):
    """A data-free feedback run over more rows than the integrator's default buffer (10 000), in batches: the trajectory must still
    be bit-identical to ONE integrate() call (the capacity boundary is crossed by a batch in the filter, by nothing in the oracle)."""
    filters, strapdown = m["filters"], m["strapdown"]
    rng = np.random.RandomState(task["seed"] % (2 ** 31))
    n = int(strapdown.Integrator.INITIAL_SIZE) + 350
    pva = filt.make_pva(m, 0.0, rng, 0.0 if task["alt"] else 2.0)
    incs = filt.make_increments(m, 0.0, np.arange(1, n + 1) * 0.01, rng)
    gm, am = filt.make_models(m, task["models"], rng)
    try:
        res = filters.run_feedback_filter(pva, 1.0, 0.1, 0.1, 1.0, incs, gm, am, task["form"], time_step=task["step"], with_altitude=task["alt"])
    except Exception as e:
        return "raised %s: %s" % (type(e).__name__, str(e)[:150])
    plain = strapdown.Integrator(pva, task["alt"])
    plain.integrate(incs)
    a, b = plain.trajectory, res.trajectory
    if a.shape != b.shape or not (np.asarray(a.index) == np.asarray(b.index)).all():
        return "trajectory has %s rows, plain integration %s" % (b.shape, a.shape)
    diff = np.nonzero((a.values.view(np.int64) != b.values.view(np.int64)).any(axis=1))[0]
    if len(diff):
        return "%d rows differ bitwise from plain integration, first at row %d (max |d| = %.3g)" % (len(diff), int(diff[0]), float(np.nanmax(np.abs(a.values - b.values))))
    return None


def check(rep, pid, tier, seed):
    # ---- clause 1
    check_filters.check(rep, "C12", tier, seed)
    rule1 = rep.rule
    ltasks = [dict(seed=seed * 29 + k, alt=bool(k % 2), models=["default", "asym", "full", "bias"][k % 4], form=[None, []][k % 2],
                   step=[1.0, 0.37, 5.0, 0.5][k % 4]) for k in range(2 if tier == "quick" else 8)]
    for k, status, out in pool.run_tasks(long_transparent_run, ltasks, init=filt.init_worker, task_timeout=1200):
        rep.traces += 1
        rep.evaluations += 1
        rep.nontrivial.add("long%d" % k)
        if status != "done":
            rep.machinery("long transparent run %s: %s" % (status, str(out)[:300]))
        elif out:
            rep.violation("C12 transparency over the integrator's default capacity (with_altitude=%s, models=%s, time_step=%s): %s"
                          % (ltasks[k]["alt"], ltasks[k]["models"], ltasks[k]["step"], out), dict(kind="long", task=ltasks[k]), key="long")
    # ---- clause 3
    consts = dict(Kinds={"fb", "ff", "fb0"}, Datasets={1, 2}, Models={1, 2}, MaxRuns=4 if tier == "quick" else 5, Resets=True)
    r = tlc.run_tlc("FilterRuns", dict(spec="Spec", constants=consts, invariants=["RunsIndependent", "LeavesEstimates", "TransparentRerun"]), workers=8, coverage=True)
    rep.add_tlc("FilterRuns[MaxRuns=%d]" % consts["MaxRuns"], r)
    if not r.ok:
        rep.machinery("leg M: FilterRuns violates %s" % r.violated)
    r2 = tlc.run_tlc("FilterRuns", dict(spec="Spec", constants=dict(consts, Resets=False, MaxRuns=3), invariants=["RunsIndependent", "TransparentRerun"]), workers=4)
    rep.extra.setdefault("spec_sensitivity", []).append(dict(model="FilterRuns[Resets=FALSE]", violated=r2.violated,
                                                             runs=tlc.to_jsonable(r2.trace[-1][1].get("runs")) if r2.trace else None))
    if r2.ok:
        rep.vacuity.append("FilterRuns: Resets=FALSE satisfies RunsIndependent")
    n = 16 if tier == "quick" else 600
    sim = tlc.run_tlc("FilterRuns", dict(init="Init", next="Next", constants=dict(consts, MaxRuns=5)), workers=1,
                      simulate=dict(num=n, file=True), depth=8, seed=seed)
    rep.add_tlc("FilterRuns[-simulate num=%d]" % n, sim, note="behaviour generation for leg R")
    tasks = []
    fixed = [[("run", "fb", 1, 1), ("run", "fb0", 1, 1), ("run", "ff", 1, 1), ("run", "fb0", 2, 1)],
             [("run", "fb", 1, 1), ("run", "ff", 1, 1), ("run", "fb", 1, 1), ("run", "ff", 1, 1)],
             [("run", "fb", 1, 1), ("run", "fb", 2, 1), ("run", "fb", 1, 1)],
             [("run", "ff", 2, 2), ("poke", 2), ("run", "ff", 2, 2)]]
    for k, tr in enumerate(sim.sim_traces):
        seq, prev_runs = [], 0
        for a, s in tr[1:]:
            if len(s["runs"]) > prev_runs:
                rr = s["runs"][-1]
                seq.append(("run", rr["kind"], rr["data"], rr["model"]))
                prev_runs = len(s["runs"])
            else:
                # which model was poked: the one whose est changed to a "poked" term
                poked = [mm for mm, e in tlc.fun_to_seq(s["est"]).items()] if isinstance(s["est"], dict) else []
                cur = s["est"]
                cands = [i + 1 for i, e in enumerate(cur) if isinstance(e, tuple) and e and e[0] == "poked" and e[1] == s["pokes"] - 1] \
                    if isinstance(cur, tuple) else [mm for mm, e in cur.items() if isinstance(e, tuple) and e and e[0] == "poked" and e[1] == s["pokes"] - 1]
                seq.append(("poke", cands[0] if cands else 1))
        if sum(1 for x in seq if x[0] == "run") >= 2:
            tasks.append(dict(seq=seq, seed=seed * 11 + k, alt=bool(k % 2)))
    for k, seq in enumerate(fixed):
        tasks.append(dict(seq=seq, seed=seed * 13 + k, alt=bool(k % 2)))
    for k, status, out in pool.run_tasks(lambda m, t: run_sequence(m, t), tasks, init=filt.init_worker, task_timeout=600):
        t = tasks[k]
        rep.traces += 1
        rep.evaluations += 1
        if status != "done":
            rep.machinery("run sequence %s: %s" % (status, str(out)[:300]))
            continue
        groups = {}
        for rr in out["runs"]:
            groups.setdefault((rr["kind"], rr["data"]), []).append(rr)
        repeated = [g for g in groups.values() if len(g) > 1]
        if repeated and out["est_nonzero"]:
            rep.nontrivial.add(json.dumps(t["seq"]))
        for rr in out["runs"]:
            if rr.get("plain") is False:
                rep.violation("C12 transparency: a data-free feedback run that re-uses model objects is not bit-identical to plain strapdown integration "
                              "(run sequence %s)" % (t["seq"],), dict(kind="runs", task=t), key="plain")
        for g in groups.values():
            if any(rr["fp"].startswith("EXC") for rr in g):
                rep.violation("C12 re-run: a filter run raised in sequence %s: %s" % (t["seq"], [rr["fp"] for rr in g if rr["fp"].startswith("EXC")][0]),
                              dict(kind="runs", task=t), key="exc")
            elif len({rr["fp"] for rr in g}) > 1:
                rep.violation("C12 re-run: %s filter on data set %d gives different results in run sequence %s (shared model objects)"
                              % (g[0]["kind"], g[0]["data"], t["seq"]), dict(kind="runs", task=t), key="rerun")
        if k < 2:
            rep.sample(dict(leg="R/FilterRuns", sequence=t["seq"], result_fingerprints=[rr["fp"][:10] for rr in out["runs"]]))
    rep.rule = rule1 + " | clause 3: cases = run sequences with shared model objects (TLC-simulated + fixed); non-trivial = some (kind, data) repeated and final estimates non-zero"
    rep.assumptions.append("clause 2 of C12 (agreement with the feedforward filter up to second order) is not decided by this check")


def replay(rep, pid, case):
    if case.get("kind") == "long":
        m = filt.init_worker()
        out = long_transparent_run(m, case["task"])
        rep.traces += 1
        if out:
            rep.violation("C12 transparency over the integrator's default capacity: %s" % out, case)
        return
    if case.get("kind") == "runs":
        m = filt.init_worker()
        t = case["task"]
        t["seq"] = [tuple(x) for x in t["seq"]]
        out = run_sequence(m, t)
        groups = {}
        for rr in out["runs"]:
            groups.setdefault((rr["kind"], rr["data"]), []).append(rr)
        rep.traces += 1
        for g in groups.values():
            if len({rr["fp"] for rr in g}) > 1 or any(rr["fp"].startswith("EXC") for rr in g):
                rep.violation("C12 re-run: %s filter on data set %d not reproducible in %s" % (g[0]["kind"], g[0]["data"], t["seq"]), dict(kind="runs", task=t))
    else:
        check_filters.replay(rep, pid, case)
