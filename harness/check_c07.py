"""C07: Kalman correction is the exact Bayesian posterior with whitened innovation - decided on an exact domain.

Leg M  KalmanExact.tla over a fixed, vetted family of integer instances (n <= 4 states, <= 3 independent blocks of 1 or 2
       observations, diagonal / dense / rank-deficient / zero priors, zero and dependent H rows): TLC explores every ordering
       of the blocks in exact rationals; invariants OrderIndependent (= joint stacked update), InformationForm (P0 invertible),
       Symmetric, PosSemiDef (all principal minors), NotLarger.
Leg R  every step of every ordering TLC explored is executed with kalman.correct on float copies: returned (x, P) vs the exact
       state (A4, 1e-9), innovation vs the whitening relations of the LOWER Cholesky factor in square-root-free form (signs only
       where the exact residual is non-zero), inputs unmodified, symmetric to round-off; the joint call vs the sequential end state.
       Seeded float-side variation: column scaling of the state by powers of two (exactly representable, exact expectation follows).
Not decided: conditioning up to 1e10, dimensions beyond 4 x 5 (numeric behaviour of the Joseph form).
"""
import itertools, json
from fractions import Fraction as Fr
import numpy as np
from . import tlc, filt, pool

INV = ["OrderIndependent", "InformationForm", "Symmetric", "PosSemiDef", "NotLarger", "MeasuredVarianceBounded"]
FAMILY_SEED = 7      # the instance family is fixed (vetted against 32-bit overflow in TLC), VERIF_SEED varies the float side


def tla(v):
    if isinstance(v, (list, tuple)):
        return "<<" + ", ".join(tla(x) for x in v) + ">>"
    if isinstance(v, dict):
        return "[" + ", ".join("%s |-> %s" % (k, tla(x)) for k, x in v.items()) + "]"
    return str(int(v))


def _upd(x, P, H, R, z):
    n, m = len(x), len(z)
    HP = [[sum(H[i][k] * P[k][j] for k in range(n)) for j in range(n)] for i in range(m)]
    S = [[sum(HP[i][k] * H[j][k] for k in range(n)) + R[i][j] for j in range(m)] for i in range(m)]
    if m == 1:
        Si = [[1 / S[0][0]]]
    else:
        det = S[0][0] * S[1][1] - S[0][1] * S[1][0]
        Si = [[S[1][1] / det, -S[0][1] / det], [-S[1][0] / det, S[0][0] / det]]
    PHt = [[HP[j][i] for j in range(m)] for i in range(n)]
    Kg = [[sum(PHt[i][k] * Si[k][j] for k in range(m)) for j in range(m)] for i in range(n)]
    e = [z[i] - sum(H[i][k] * x[k] for k in range(n)) for i in range(m)]
    x2 = [x[i] + sum(Kg[i][k] * e[k] for k in range(m)) for i in range(n)]
    KHP = [[sum(Kg[i][k] * HP[k][j] for k in range(m)) for j in range(n)] for i in range(n)]
    P2 = [[P[i][j] - KHP[i][j] for j in range(n)] for i in range(n)]
    return x2, P2, S, Kg


def _size(*objs):
    mx = 1
    def walk(o):
        nonlocal mx
        if isinstance(o, list):
            for q in o:
                walk(q)
        else:
            f = Fr(o)
            mx = max(mx, abs(f.numerator), f.denominator)
    for o in objs:
        walk(o)
    return mx


def make_instances(count):
    """Deterministic family; the Fraction arithmetic here only SIZES instances (keeps TLC inside 32 bits), it is not an oracle."""
    rng = np.random.RandomState(FAMILY_SEED)
    out = []
    tries = 0
    while len(out) < count and tries < 5000:
        tries += 1
        n = int(rng.choice([1, 2, 2, 3, 3, 4]))
        kind = rng.choice(["diag", "dense", "rank1", "zero", "dense"])
        if kind == "diag":
            P0 = np.diag(rng.randint(0, 4, n))
        elif kind == "dense":
            A = rng.randint(-1, 3, (n, n)); P0 = A @ A.T
        elif kind == "rank1":
            a = rng.randint(-1, 3, (n, 1)); P0 = a @ a.T
        else:
            P0 = np.zeros((n, n), int)
        x0 = rng.randint(-2, 3, n)
        nb0 = int(rng.choice([1, 2, 3, 3]))
        blocks = []
        tot = 0
        for _ in range(nb0):
            m = int(rng.choice([1, 1, 2]))
            if tot + m > 5:
                m = 1
            if tot + m > 5:
                break
            tot += m
            H = rng.randint(-1, 3, (m, n))
            if rng.rand() < 0.15:
                H[0] = 0                                   # zero row
            if m == 2 and rng.rand() < 0.2:
                H[1] = 2 * H[0]                            # linearly dependent rows
            R = np.array([[int(rng.choice([1, 2, 4]))]]) if m == 1 else \
                [np.eye(2, dtype=int), 2 * np.eye(2, dtype=int), np.array([[2, 1], [1, 2]])][int(rng.randint(3))]
            blocks.append(dict(H=H.tolist(), R=np.asarray(R).tolist(), z=rng.randint(-3, 4, m).tolist()))
        nb = len(blocks)
        inst = dict(n=n, x0=x0.tolist(), P0=P0.tolist(), blocks=blocks)
        # size check over all orders
        big = 1
        for perm in itertools.permutations(range(nb)):
            x = [Fr(v) for v in inst["x0"]]; P = [[Fr(v) for v in r] for r in inst["P0"]]
            for b in perm:
                B = blocks[b]
                x, P, S, Kg = _upd(x, P, [[Fr(v) for v in r] for r in B["H"]], [[Fr(v) for v in r] for r in B["R"]], [Fr(v) for v in B["z"]])
                big = max(big, _size(x, P, S, Kg))
        if big <= 1200:
            out.append(inst)
    return out


def instances_module(insts):
    body = ",\n  ".join(tla(i) for i in insts)
    return ("--------------------------- MODULE KalmanInstances ---------------------------\n"
            "(* generated by harness/check_c07.py (fixed family, FAMILY_SEED) *)\nEXTENDS Integers\n"
            "Instances == <<\n  %s\n>>\n=============================================================================\n" % body)


def fr(v):
    return Fr(v[0], v[1])


def replay_instance(m, task):
    """task: dict(inst, steps={order tuple: (x, P, e, S)} exact as (num, den) pairs, seed)."""
    kalman = m["kalman"]
    inst, steps = task["inst"], task["steps"]
    rng = np.random.RandomState(task["seed"] % (2 ** 31))
    n = inst["n"]
    probs = []
    nb = len(inst["blocks"])
    # float-side variation: scale state j by 2^s_j (exact): x -> D x, P -> D P D, H -> H D^-1
    sc = np.array([2.0 ** int(s) for s in rng.randint(-3, 4, n)]) if task.get("scale") else np.ones(n)
    D = np.diag(sc); Di = np.diag(1 / sc)
    # ... and of every measurement block: z -> c z, H -> c H, R -> c^2 R with c a power of two (exact; posterior and whitened
    # innovation are unchanged), which moves R over the 1e-8 .. 1e8 range of the property
    cs = [2.0 ** int(k) for k in rng.choice([-14, -13, -7, 0, 10, 13], size=nb)] if task.get("scale") else [1.0] * nb
    close = lambda got, exp: abs(got - exp) <= 1e-9 * max(1.0, abs(exp))
    for perm in itertools.permutations(range(1, nb + 1)):
        x = D @ np.array(inst["x0"], dtype=float)
        P = D @ np.array(inst["P0"], dtype=float) @ D
        for k, b in enumerate(perm):
            B = inst["blocks"][b - 1]
            c = cs[b - 1]
            H = c * (np.array(B["H"], dtype=float) @ Di)
            R = c * c * np.array(B["R"], dtype=float)
            z = c * np.array(B["z"], dtype=float)
            args = [x.copy(), P.copy(), z.copy(), H.copy(), R.copy()]
            snaps = [a.copy() for a in args]
            try:
                x2, P2, innov = kalman.correct(*args)
            except Exception as e:
                probs.append("correct raised %s: %s (order %s step %d)" % (type(e).__name__, e, perm, k))
                break
            if any(not np.array_equal(a, s) for a, s in zip(args, snaps)):
                probs.append("kalman.correct modified an input array (order %s step %d)" % (perm, k))
            ex, eP, ee, eS = steps[tuple(perm[:k + 1])]
            exv = np.array([float(fr(v)) for v in ex]) * sc
            ePv = np.array([[float(fr(v)) for v in r] for r in eP]) * np.outer(sc, sc)
            if not all(close(g, e) for g, e in zip(x2, exv)):
                probs.append("posterior mean differs from the exact conditional mean (order %s step %d): %r vs %r" % (perm, k, x2.tolist(), exv.tolist()))
            if not all(close(g, e) for g, e in zip(P2.ravel(), ePv.ravel())):
                probs.append("posterior covariance differs from the exact one (order %s step %d): max |d| = %.3g" % (perm, k, float(np.max(np.abs(P2 - ePv)))))
            if np.max(np.abs(P2 - P2.T)) > 1e-12 * max(1.0, np.max(np.abs(P2))):
                probs.append("posterior covariance is not symmetric (order %s step %d)" % (perm, k))
            # whitening: lower Cholesky, square-root free
            e1 = fr(ee[0]); S11 = fr(eS[0][0])
            if not close(innov[0] ** 2 * float(S11), float(e1 * e1)) or (e1 != 0 and np.sign(innov[0]) != np.sign(float(e1))):
                probs.append("innovation[0] is not e1/sqrt(S11) (order %s step %d): %r" % (perm, k, innov.tolist()))
            if len(ee) == 2:
                e2 = fr(ee[1]); S21 = fr(eS[1][0]); S22 = fr(eS[1][1])
                r2 = e2 - S21 * e1 / S11
                s2 = S22 - S21 * S21 / S11
                if not close(innov[1] ** 2 * float(s2), float(r2 * r2)) or (r2 != 0 and np.sign(innov[1]) != np.sign(float(r2))):
                    probs.append("innovation[1] is not the residual whitened by the LOWER Cholesky factor (order %s step %d): %r, exact e=%s S=%s"
                                 % (perm, k, innov.tolist(), [str(e1), str(e2)], [[str(S11)], [str(S21), str(S22)]]))
            x, P = x2, P2
        if probs:
            break
    # (An "ill-conditioned regime" stage - huge exact scalings, sign conditions only - was tried and removed: at prior/R ratios
    #  where the Joseph form and the simple form (I - KH)P separate (>= 1e15) the shipped code itself misses the bound
    #  0 <= H P' H' <= R by tens of percent, so no sound verdict exists there; see DESIGN.md s8.1, seeded change C07_3.)
    # joint call with the stacked system vs the exact end state
    if not probs:
        Hs = np.vstack([cs[i] * np.array(B["H"], dtype=float) for i, B in enumerate(inst["blocks"])]) @ Di
        zs = np.hstack([cs[i] * np.array(B["z"], dtype=float) for i, B in enumerate(inst["blocks"])])
        mtot = len(zs)
        Rs = np.zeros((mtot, mtot)); o = 0
        for i, B in enumerate(inst["blocks"]):
            k = len(B["z"]); Rs[o:o + k, o:o + k] = cs[i] ** 2 * np.array(B["R"], dtype=float); o += k
        ex, eP, _, _ = steps[tuple(range(1, nb + 1))]
        try:
            xj, Pj, _ = kalman.correct(D @ np.array(inst["x0"], dtype=float), D @ np.array(inst["P0"], dtype=float) @ D, zs, Hs, Rs)
            exv = np.array([float(fr(v)) for v in ex]) * sc
            ePv = np.array([[float(fr(v)) for v in r] for r in eP]) * np.outer(sc, sc)
            if not (all(close(g, e) for g, e in zip(xj, exv)) and all(close(g, e) for g, e in zip(Pj.ravel(), ePv.ravel()))):
                probs.append("joint processing of the stacked blocks differs from sequential processing / exact posterior")
        except Exception as e:
            probs.append("joint correct raised %s: %s" % (type(e).__name__, e))
    return probs


def check(rep, pid, tier, seed):
    rep.assumptions += [
        "exact domain: integer instances with n <= 4 states and <= 5 observations in <= 3 independent blocks; float results are compared with exact rationals at 1e-9 relative (A4)",
        "ill-conditioning (cond up to 1e10, scales 1e+-8) and larger dimensions are not decided",
        "whitening sign clauses are asserted only where the exact residual is non-zero",
    ]
    insts = make_instances(120 if tier == "quick" else 600)
    nproc = 8 if tier == "quick" else 16
    groups = [list(range(g, len(insts), nproc)) for g in range(nproc)]

    def one(idx):
        sub = [insts[i] for i in idx]
        return tlc.run_tlc("KalmanExact", dict(spec="Spec", invariants=INV), workers=1, timeout=7200, heap="2g",
                           extra_files={"KalmanInstances.tla": instances_module(sub)})
    from concurrent.futures import ThreadPoolExecutor
    with ThreadPoolExecutor(nproc) as ex:
        results = list(ex.map(one, groups))
    prints = []
    ok = True
    for g, (idx, r) in enumerate(zip(groups, results)):
        rep.add_tlc("KalmanExact[instances %s, all block orderings]" % ([i + 1 for i in idx],), r)
        if not r.ok:
            ok = False
            rep.machinery("leg M: KalmanExact violates %s (instance %s order %s)" % (
                r.violated, idx[r.trace[-1][1].get("inst") - 1] + 1 if r.trace else "?", r.trace[-1][1].get("order") if r.trace else "?"))
        for line in r.prints:
            v = tlc.parse_value(line)
            if v[0] == "K":
                prints.append((idx[v[1] - 1] + 1,) + tuple(v[2:]))
    rep.exhaustive = ok
    steps = {}
    for v in prints:
        steps.setdefault(v[0], {})[tuple(v[1])] = (v[2], v[3], v[4], v[5])
    tasks = []
    for i, inst in enumerate(insts):
        if (i + 1) not in steps:
            rep.machinery("no exact states printed for instance %d" % (i + 1))
            continue
        for variant in range(3 if tier == "quick" else 8):
            tasks.append(dict(inst=inst, steps=steps[i + 1], seed=seed * 101 + i * 7 + variant, scale=variant > 0, idx=i + 1))
    for k, status, out in pool.run_tasks(lambda m, t: replay_instance(m, t), tasks, init=filt._imports, task_timeout=300):
        t = tasks[k]
        rep.traces += math_fact(len(t["inst"]["blocks"]))
        rep.evaluations += 1
        rep.nontrivial.add((t["idx"], t["seed"] if t["scale"] else 0))
        if status != "done":
            rep.machinery("replay of instance %d: %s %s" % (t["idx"], status, str(out)[:300]))
        else:
            for p in out[:2]:
                rep.violation("C07 instance %d (n=%d, %d blocks%s): %s" % (t["idx"], t["inst"]["n"], len(t["inst"]["blocks"]), ", scaled" if t["scale"] else "", p),
                              dict(kind="kalman", task=dict(inst=t["inst"], seed=t["seed"], scale=t["scale"], idx=t["idx"],
                                                            steps=[[list(o), tlc.to_jsonable(s)] for o, s in t["steps"].items()])), key=p[:40])
    if insts:
        rep.sample(dict(leg="M+R", instance=insts[0], exact_end_state=tlc.to_jsonable(steps.get(1, {}).get(tuple(range(1, len(insts[0]["blocks"]) + 1))))))
    rep.rule = ("cases = (instance, block ordering) paths explored by TLC and replayed on kalman.correct, each with and without an exact power-of-two "
                "rescaling of the state; distinct = distinct (instance, scaling); non-trivial = all (every instance has >= 1 block and a non-trivial prior family)")


def math_fact(n):
    return {1: 1, 2: 2, 3: 6}.get(n, 1)


def replay(rep, pid, case):
    m = filt._imports()
    t = case["task"]
    t["steps"] = {tuple(o): tuple(_unjson(x) for x in s) for o, s in t["steps"]}
    out = replay_instance(m, t)
    rep.traces += 1
    for p in out[:2]:
        rep.violation("C07: %s" % p, case)


def _unjson(x):
    return x
