"""C17: attitude representations and rotation primitives - the exact part, on the cube group.

Leg M  Attitude.tla: all 64 (roll, pitch, heading) quarter-turn triples, the 12 quarter turns about coordinate axes and the 8 thirds of
       a turn about body diagonals: Proper, NoseDirection, DownInBody, Conventions (the documented sign conventions stated by where body
       axes go, independently of the product formula), RoundTrip (away from pitch +-90), EulerIsAxisProduct, ExpAxisGroupLaw, DiagCubed.
Leg R  every configuration on the real functions: transform.mat_from_rph (single, list, stacked) == the integer matrix (1e-15),
       transform.mat_to_rph returns the model's angles modulo 360 away from pitch +-90, _numba_integrate.mat_from_rotvec at the
       corresponding rotation vectors == the integer matrix.
       Numeric predicates computed by the harness (labelled as such in the evidence; no external oracle): on seeded general angles the
       matrix is proper, its first column / third row are the closed forms of NoseDirection / DownInBody, the round trip returns the
       angles; mat_from_rotvec satisfies the one-parameter-group law M(s v) M(t v) = M((s+t) v) with M'(0) = skew (which characterises
       the exponential map), is orthonormal, agrees with I + skew(v) at tiny vectors and does not jump across its small-angle branch.
The Jacobian clause of C17 (attitude error -> Euler error) is decided by ErrorTransform.tla under C05 at pitch 0.
"""
import math
import numpy as np
from . import tlc, filt, pool, exc

INV = ["Proper", "NoseDirection", "DownInBody", "Conventions", "RoundTrip", "EulerIsAxisProduct", "ExpAxisGroupLaw", "DiagCubed", "Sense", "PairAngles"]
ANG = {0: 0.0, 1: 90.0, 2: 180.0, 3: -90.0}


def _rotvec_mat(m, rv):
    f = m["pyins"]._numba_integrate.mat_from_rotvec
    out = np.empty((3, 3))
    try:
        f(np.asarray(rv, dtype=float), out)
    except Exception as e:          # a compiled function: its frames are not on the traceback
        raise exc.LibraryRaised("mat_from_rotvec(%s) raised %s: %s" % (np.asarray(rv).tolist(), type(e).__name__, e))
    return out


def angle_eq(a, b, tol=1e-9):
    d = (a - b) % 360.0
    return min(d, 360.0 - d) <= tol


def exact_configs(m, cfgs):
    T = m["transform"]
    probs = []
    for c in cfgs:
        kind, a, b, cc, M, back = c
        Mi = np.array(M, float)
        tag = "%s %s" % (kind, (a, b, cc))
        try:
            if kind == "rph":
                rph = [ANG[a], ANG[b], ANG[cc]]
                got = T.mat_from_rph(np.array(rph))
                if not np.allclose(got, Mi, rtol=0, atol=1e-15):
                    probs.append((c, "mat_from_rph(roll %g, pitch %g, heading %g) is not the matrix of the documented convention: max |d| = %.3g"
                                  % (rph[0], rph[1], rph[2], np.abs(got - Mi).max())))
                    continue
                if not np.array_equal(T.mat_from_rph(rph), got):
                    probs.append((c, "mat_from_rph(list) differs from mat_from_rph(ndarray)"))
                st = T.mat_from_rph(np.array([rph, [10.0, 20.0, 30.0]]))
                if st.shape != (2, 3, 3) or not np.allclose(st[0], got, rtol=0, atol=1e-15):
                    probs.append((c, "mat_from_rph(stacked)[0] differs from the single form"))
                # angles given as integers (lists, int32 / int64 arrays, integer-typed table columns) are the same input
                ref = T.mat_from_rph(np.array([10.0, -20.0, 30.0]))
                irph = [int(x) for x in rph]
                forms = {"nested int list": [irph, [10, -20, 30]], "int64 ndarray": np.array([irph, [10, -20, 30]], dtype=np.int64),
                         "int32 ndarray": np.array([irph, [10, -20, 30]], dtype=np.int32),
                         "integer-typed DataFrame": m["pd"].DataFrame([irph, [10, -20, 30]], columns=['roll', 'pitch', 'heading'])}
                for name, arg in forms.items():
                    sti = np.asarray(T.mat_from_rph(arg), float)
                    if sti.shape != (2, 3, 3) or not (np.allclose(sti[0], got, rtol=0, atol=1e-15) and np.allclose(sti[1], ref, rtol=0, atol=1e-15)):
                        probs.append((c, "mat_from_rph(%s) differs from the float form of the same angles (max |d| = %.3g)" % (
                            name, float(max(np.abs(sti[0] - got).max(), np.abs(sti[1] - ref).max())) if sti.shape == (2, 3, 3) else float('nan'))))
                        break
                if not np.allclose(np.asarray(T.mat_from_rph([10, -20, 30]), float), ref, rtol=0, atol=1e-15):
                    probs.append((c, "mat_from_rph(int list) differs from the float form"))
                if back:
                    g = T.mat_to_rph(got)
                    want = [ANG[back[0]], ANG[back[1]], ANG[back[2]]]
                    if not all(angle_eq(float(g[i]), want[i]) for i in range(3)):
                        probs.append((c, "mat_to_rph(mat_from_rph(%s)) = %s, expected %s modulo 360" % (rph, np.round(g, 9).tolist(), want)))
                    g2 = T.mat_to_rph(np.array([Mi, Mi]))
                    if g2.shape != (2, 3) or not all(angle_eq(float(g2[1][i]), want[i]) for i in range(3)):
                        probs.append((c, "mat_to_rph(stacked) differs from the single form"))
            else:
                if kind == "axis":
                    rv = np.zeros(3); rv[a - 1] = ANG[b] * math.pi / 180.0
                else:
                    rv = (2 * math.pi / 3) * np.array([a, b, cc], float) / math.sqrt(3.0)
                got = _rotvec_mat(m, rv)
                if not np.allclose(got, Mi, rtol=0, atol=4e-16):
                    probs.append((c, "mat_from_rotvec(%s) is not the rotation about that axis: max |d| = %.3g" % (np.round(rv, 6).tolist(), np.abs(got - Mi).max())))
        except Exception as e:
            if not exc.entered_pyins(e):
                raise
            probs.append((c, "%s: the library raised %s" % (tag, exc.describe(e))))
    return probs


def _numeric_predicates(m, seed):
    """Returns list of (name, holds, detail). No external oracle: closed forms of the convention and group laws."""
    T = m["transform"]
    rng = np.random.RandomState(seed % (2 ** 31))
    out = []
    worst = dict(proper=0.0, nose=0.0, down=0.0, trip=0.0)
    for _ in range(400):
        r, p, h = rng.uniform(-180, 180), rng.uniform(-89, 89), rng.uniform(-180, 180)
        C = T.mat_from_rph([r, p, h])
        sr, sp, sh = (math.sin(math.radians(x)) for x in (r, p, h)); cr, cp, ch = (math.cos(math.radians(x)) for x in (r, p, h))
        worst["proper"] = max(worst["proper"], np.abs(C @ C.T - np.eye(3)).max(), abs(np.linalg.det(C) - 1))
        worst["nose"] = max(worst["nose"], np.abs(C[:, 0] - [ch * cp, sh * cp, -sp]).max())
        worst["down"] = max(worst["down"], np.abs(C[2] - [-sp, cp * sr, cp * cr]).max())
        g = T.mat_to_rph(C)
        worst["trip"] = max(worst["trip"], max(min((g[i] - x) % 360, 360 - (g[i] - x) % 360) for i, x in enumerate((r, p, h))))
    out.append(("general_angles_proper", worst["proper"] <= 1e-14, "max deviation %.3g" % worst["proper"]))
    out.append(("general_angles_nose_direction", worst["nose"] <= 1e-14, "max deviation %.3g" % worst["nose"]))
    out.append(("general_angles_down_in_body", worst["down"] <= 1e-14, "max deviation %.3g" % worst["down"]))
    out.append(("general_angles_round_trip", worst["trip"] <= 1e-9, "max deviation %.3g deg" % worst["trip"]))
    # the exponential map: one-parameter group law + derivative at 0 + orthonormality, over 9 decades of magnitude
    wg = wo = 0.0
    for _ in range(600):
        v = rng.randn(3); v /= np.linalg.norm(v)
        mag = 10.0 ** rng.uniform(-9, 0.45)
        s, t = rng.uniform(0.1, 1.0), rng.uniform(0.1, 1.0)
        A, B, AB = _rotvec_mat(m, s * mag * v), _rotvec_mat(m, t * mag * v), _rotvec_mat(m, (s + t) * mag * v)
        wg = max(wg, np.abs(A @ B - AB).max())
        wo = max(wo, np.abs(A @ A.T - np.eye(3)).max())
    out.append(("rotvec_group_law", wg <= 4e-15, "max |M(sv)M(tv) - M((s+t)v)| = %.3g" % wg))
    out.append(("rotvec_orthonormal", wo <= 4e-15, "max |M M' - I| = %.3g" % wo))
    wt = 0.0
    for _ in range(100):
        v = rng.randn(3) * 1e-8
        S = np.array([[0, -v[2], v[1]], [v[2], 0, -v[0]], [-v[1], v[0], 0]])
        wt = max(wt, np.abs(_rotvec_mat(m, v) - (np.eye(3) + S)).max())
    out.append(("rotvec_first_order_at_zero", wt <= 1e-15, "max |M(v) - (I + skew v)| = %.3g at |v| ~ 1e-8" % wt))
    # no jump across the small-angle branch (norm^2 = 1e-6)
    wj = 0.0
    for d in (np.array([1.0, 0, 0]), np.array([0, 1.0, 0]), np.array([0, 0, 1.0]), np.array([0.6, 0.0, 0.8]), np.array([2.0, -1.0, 2.0]) / 3.0):
        a = 1e-3
        lo = hi = None
        cand = [a]
        x = a
        for _ in range(8):
            x = np.nextafter(x, 0.0); cand.append(x)
        x = a
        for _ in range(8):
            x = np.nextafter(x, 1.0); cand.append(x)
        cand.sort()
        for x0, x1 in zip(cand[:-1], cand[1:]):
            if np.sum((x0 * d) ** 2) <= 1e-6 < np.sum((x1 * d) ** 2):
                lo, hi = x0, x1
        if lo is None:
            continue
        wj = max(wj, np.abs(_rotvec_mat(m, lo * d) - _rotvec_mat(m, hi * d)).max())
    out.append(("rotvec_no_jump_across_small_angle_branch", 0.0 < wj + 1e-300 and wj <= 1e-15, "max |M(below) - M(above)| = %.3g for neighbouring vectors" % wj))
    return out


def check(rep, pid, tier, seed):
    rep.assumptions += [
        "decided exactly: the cube group (angles multiple of 90 deg, rotation vectors that are quarter turns about axes / thirds of a turn about diagonals)",
        "general angles and general rotation vectors are judged by numeric predicates computed by the harness (closed forms of the convention, group laws; "
        "tolerances 1e-14 / 4e-15, 10-20 ulp) - they are labelled `numeric_predicates` in the evidence and are not TLC-decided",
        "the Jacobian clause (attitude error -> Euler error) is decided under C05 (ErrorTransform.tla) at pitch 0; 'to machine precision for every rotation vector' is not decided",
    ]
    r = tlc.run_tlc("Attitude", dict(spec="Spec", invariants=INV), workers=4, timeout=900, heap="2g", coverage=True)
    rep.add_tlc("Attitude[64 rph triples + 12 axis quarter turns + 8 diagonal thirds]", r)
    if not r.ok:
        rep.machinery("leg M: Attitude violates %s: %s" % (r.violated, r.trace[-1][1] if r.trace else "?"))
    rep.exhaustive = r.ok
    cfgs = []
    for line in r.prints:
        v = tlc.parse_value(line)
        if isinstance(v, tuple) and v and v[0] == "ATT":
            _, kind, a, b, c, M, back = v
            if kind != "pair":           # the pairs are replayed by C18 (resample_state)
                cfgs.append((kind, a, b, c, [list(x) for x in M], list(back)))
    if len(cfgs) != 84:
        rep.machinery("Attitude printed %d configurations, expected 84" % len(cfgs))
    m = filt._imports()
    for c, p in exact_configs(m, cfgs):
        rep.violation("C17 %s" % p, dict(mode="exact", cfg=list(c)), key=p[:30])
    preds = numeric_predicates(m, seed)
    rounds = [(seed, preds)] + ([(seed + 1000 * k, numeric_predicates(m, seed + 1000 * k)) for k in range(1, 25)] if tier == "thorough" else [])
    for sd_, pr_ in rounds:
        for name, holds, detail in pr_:
            if not holds:
                rep.violation("C17 numeric predicate %s does not hold: %s" % (name, detail), dict(mode="numeric", name=name, seed=sd_), key=name)
    rep.extra["numeric_predicate_rounds"] = len(rounds)
    rep.extra["numeric_predicates"] = [dict(name=n, holds=bool(h), detail=d) for n, h, d in preds]
    rep.traces += len(cfgs)
    rep.evaluations += len(cfgs) + len(preds)
    for c in cfgs:
        rep.nontrivial.add((c[0], c[1], c[2], c[3]))
    rep.rule = "one configuration = an element of the cube group given as Euler triple / axis quarter turn / diagonal third; plus 8 numeric predicates on seeded general inputs"
    rep.sample("rph (0, 90, 0): mat_from_rph = [[0,0,1],[0,1,0],[-1,0,0]] - the nose points up")


def replay(rep, pid, case):
    m = filt._imports()
    if case.get("mode") == "exact":
        c = case["cfg"]
        for _, p in exact_configs(m, [tuple(c)]):
            rep.violation("C17 replay: %s" % p, case)
    else:
        for name, holds, detail in numeric_predicates(m, case.get("seed", 1)):
            if not holds and name == case.get("name"):
                rep.violation("C17 replay: numeric predicate %s: %s" % (name, detail), case)


def numeric_predicates(m, seed):
    """An exception raised by the library while a predicate is evaluated is an observation (a failing predicate); one that never
    entered pyins is a defect of the harness."""
    try:
        return _numeric_predicates(m, seed)
    except Exception as e:
        if not exc.entered_pyins(e):
            raise
        return [("library_raised", False, exc.describe(e))]
