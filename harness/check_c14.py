"""C14: sensor error simulation and estimation models are exact mutual inverses; layouts for all 2^18 masks.

Leg M  SensorModel.tla over mask slices (quick: the 344 masks of weight <= 2 or >= 16 plus one seeded slice of 4096; thorough: all
       64 slices = all 262 144 masks), eight layout invariants; SensorEstimates.tla (update histories for representative layouts:
       Accumulates, DisabledUntouched, OutputMatrixIsErrorModel, HMatMatchesLayout); Accumulate = FALSE must be caught.
Leg R  every layout TLC printed is compared with a real EstimationModel built with a distinct prime per slot (names, order, dims,
       P, q, v, G, H, J, F, output_matrix single/stacked; rejected masks must raise ValueError), with the simulator's parameter-table
       columns, with H(r)x = noise-free simulated error (rate and increment types, irregular stamps) and with
       correct_increments(apply(.)) = id; TLC-simulated update histories are replayed on real models (exact ==).
Statistical clause: exponents / magnitudes measured on seeded simulator output, validated against SensorNoise.tla.
"""
import json, os, shutil, tempfile
from concurrent.futures import ThreadPoolExecutor
import numpy as np
from . import tlc, filt, pool

LAYOUT_INV = ["DimsAgree", "NamesUnique", "HSelectsOwnAxis", "WalkDrivesOwnBias", "GInjective", "NoiseOnOwnAxis",
              "SmRowMajorAfterBias", "NamesMatchSimulator"]
EST_INV = ["Accumulates", "DisabledUntouched", "OutputMatrixIsErrorModel", "HMatMatchesLayout"]
P_BIAS = [2.0, 3.0, 5.0]
P_WALK = [7.0, 11.0, 13.0]
P_NOISE = [17.0, 19.0, 23.0]
P_SM = [[29.0, 31.0, 37.0], [41.0, 43.0, 47.0], [53.0, 59.0, 61.0]]
XYZ = "xyz"


def name(code):
    return "bias_%s" % XYZ[code - 1] if code < 10 else "sm_%s%s" % (XYZ[code // 10 - 1], XYZ[code % 10 - 1])


def bits(mask):
    b = lambda k: bool((mask >> k) & 1)
    return dict(bias=[b(a) for a in range(3)], walk=[b(3 + a) for a in range(3)], noise=[b(6 + a) for a in range(3)],
                sm=[[b(9 + 3 * o + i) for i in range(3)] for o in range(3)])


def parse_layout(line):
    v = json.loads(line.replace("<<", "[").replace(">>", "]"))
    keys = ["mask", "rejected", "n_states", "n_noises", "n_out", "states", "walk_axes", "noise_axes", "G", "H", "J", "sm", "sim_cols"]
    return dict(zip(keys, v))


def compare_layouts(m, chunk):
    """chunk: list of layout dicts. Returns list of (mask, problem) for disagreements."""
    IS = m["inertial_sensor"]
    pd = m["pd"]
    out = []
    r1 = np.array([101.0, 103.0, 107.0])
    r2 = np.array([[101.0, 103.0, 107.0], [109.0, 113.0, 127.0]])
    stamps0 = np.array([0.0, 0.25, 0.75, 1.0, 2.0])
    dtv = np.hstack([0.25, np.diff(stamps0)])
    R = np.array([[1.0, 2.0, 3.0], [-2.0, 0.5, 4.0], [0.25, -1.0, 2.0], [8.0, 1.0, -0.5], [3.0, 3.0, 3.0]])
    for L in chunk:
        mask = L["mask"]
        b = bits(mask)
        stamps = stamps0 + (0.0, 256.0, -8.0)[mask % 3]       # the time axis may start anywhere (intervals are what matters)
        args = dict(bias_sd=[P_BIAS[a] if b["bias"][a] else 0.0 for a in range(3)],
                    noise=[P_NOISE[a] if b["noise"][a] else 0.0 for a in range(3)],
                    bias_walk=[P_WALK[a] if b["walk"][a] else 0.0 for a in range(3)],
                    scale_misal_sd=[[P_SM[o][i] if b["sm"][o][i] else 0.0 for i in range(3)] for o in range(3)])
        prob = None
        try:
            em = IS.EstimationModel(**args)
            built = True
        except ValueError:
            built = False
        except Exception as e:
            built = None
            prob = "constructor raised %s: %s" % (type(e).__name__, e)
        if prob is None and L["rejected"]:
            if built:
                prob = "mask with bias walk on an axis without bias was accepted"
        elif prob is None and not built:
            prob = "valid mask rejected with ValueError"
        elif prob is None:
            nS, nN, nO = L["n_states"], L["n_noises"], L["n_out"]
            names = [name(c) for c in L["states"]]
            slot = lambda c: P_BIAS[c - 1] if c < 10 else P_SM[c // 10 - 1][c % 10 - 1]
            P = np.diag([slot(c) ** 2 for c in L["states"]]) if nS else np.zeros((0, 0))
            G = np.zeros((nS, nN)); H = np.zeros((3, nS)); J = np.zeros((3, nO))
            for st, n in L["G"]:
                G[st - 1, n - 1] = 1
            for ax, st in L["H"]:
                H[ax - 1, st - 1] = 1
            for ax, n in L["J"]:
                J[ax - 1, n - 1] = 1
            H1 = H.copy(); H2 = np.zeros((2, 3, nS)); H2[:] = H
            if not L["sm"]:
                H2 = H          # without scale/misalignment states the readings are ignored and H itself is returned
            for o, i, st in L["sm"]:
                H1[o - 1, st - 1] = r1[i - 1]
                H2[:, o - 1, st - 1] = r2[:, i - 1]
            checks = [
                ("states", list(em.states) == names),
                ("n_states", em.n_states == nS and em.n_noises == nN and em.n_output_noises == nO),
                ("P", np.shape(em.P) == P.shape and np.array_equal(em.P, P)),
                ("q", np.array_equal(em.q, [P_WALK[a - 1] for a in L["walk_axes"]])),
                ("v", np.array_equal(em.v, [P_NOISE[a - 1] for a in L["noise_axes"]])),
                ("G", np.shape(em.G) == G.shape and np.array_equal(em.G, G)),
                ("H", np.shape(em.H) == H.shape and np.array_equal(em.H, H)),
                ("J", np.shape(em.J) == J.shape and np.array_equal(em.J, J)),
                ("F", np.shape(em.F) == (nS, nS) and not np.any(em.F)),
                ("scale_misal_modelled", bool(em.scale_misal_modelled) == bool(L["sm"])),
            ]
            try:
                checks.append(("output_matrix(single)", np.array_equal(em.output_matrix(r1), H1)))
                checks.append(("output_matrix(stacked)", np.array_equal(em.output_matrix(r2), H2)))
                checks.append(("output_matrix(list)", np.array_equal(em.output_matrix(list(r1)), H1)))
            except Exception as e:
                checks.append(("output_matrix raised %s" % type(e).__name__, False))
            bad = [k for k, ok in checks if not ok]
            if bad:
                prob = "EstimationModel differs from Layout in %s (states %s vs %s)" % (bad, list(em.states), names)
            else:
                # simulator <-> estimator: H(r) x = noise-free simulated error; correct(apply(.)) = id
                x = np.array([(1 + k) / 64.0 * (-1) ** k for k in range(nS)])
                em.reset_estimates()
                em.update_estimates(x[: nS // 2 + 1] if False else x)          # one update
                T = em.transform.copy(); bvec = em.bias.copy()
                est = em.get_estimates()
                if not (list(est.index) == names and np.array_equal(est.values, x)):
                    prob = "get_estimates after one update is not the update vector"
                for stype in ("rate", "increment"):
                    if prob:
                        break
                    par = IS.Parameters(transform=T, bias=bvec)
                    df = pd.DataFrame(R, index=stamps, columns=["a", "b", "c"])
                    outp = par.apply(df, stype)
                    err = outp.values - R
                    scale = np.ones((len(R), 1)) if stype == "rate" else dtv[:, None]
                    # all matrices first, then use them (a result must not be a view of a buffer the next call refills)
                    Hs = [em.output_matrix(R[row] / scale[row]) for row in range(len(R))]
                    for row in range(len(R)):
                        rr = R[row] / scale[row]
                        hx = Hs[row] @ x if nS else np.zeros(3)
                        if not np.allclose(hx, err[row] / scale[row], rtol=1e-12, atol=1e-12):
                            prob = "output_matrix(r) @ x != simulated %s error at row %d: %r vs %r" % (stype, row, hx, err[row] / scale[row])
                            break
                    if prob:
                        break
                    if stype == "increment":
                        back = em.correct_increments(dtv, outp)
                        if not (np.allclose(back.values, R, rtol=1e-9, atol=1e-9) and list(back.index) == list(df.index) and list(back.columns) == list(df.columns)):
                            prob = "correct_increments(apply(x)) != x (max |d| = %.3g)" % float(np.max(np.abs(back.values - R)))
                        s0 = em.correct_increments(dtv[2], outp.iloc[2])
                        if not np.allclose(s0.values, R[2], rtol=1e-9, atol=1e-9):
                            prob = "correct_increments on a Series row differs"
                    if list(par.data_frame.columns) != names or (nS and not np.array_equal(par.data_frame.iloc[-1].values, x)):
                        prob = "simulator parameter table columns/values %s differ from estimator states %s" % (list(par.data_frame.columns), names)
                    # the same at the ppm level (navigation-grade sensors): parameters 2^-14 times smaller
                    if not prob:
                        xs = x * 2.0 ** -14
                        par_s = IS.Parameters(transform=np.eye(3) + (T - np.eye(3)) * 2.0 ** -14, bias=bvec * 2.0 ** -14)
                        par_s.apply(df, stype)
                        if list(par_s.data_frame.columns) != names or (nS and not np.allclose(par_s.data_frame.iloc[-1].values, xs, rtol=1e-9, atol=0)):
                            prob = "ppm-level parameters: simulator parameter table columns %s differ from estimator states %s" % (list(par_s.data_frame.columns), names)
        # simulator naming for the raw pattern (also for rejected masks: the simulator accepts walk without bias)
        if prob is None:
            par = IS.Parameters(transform=np.eye(3) + np.array([[P_SM[o][i] / 1024.0 if b["sm"][o][i] else 0.0 for i in range(3)] for o in range(3)]),
                                bias=[P_BIAS[a] if b["bias"][a] else 0.0 for a in range(3)],
                                bias_walk=[P_WALK[a] if b["walk"][a] else 0.0 for a in range(3)], rng=mask % 1000)
            par.apply(pd.DataFrame(R[:3], index=stamps[:3], columns=["a", "b", "c"]), "rate")
            if list(par.data_frame.columns) != [name(c) for c in L["sim_cols"]]:
                prob = "simulator table columns %s differ from SimColumns %s" % (list(par.data_frame.columns), [name(c) for c in L["sim_cols"]])
        if prob:
            out.append((mask, prob))
    return out


def replay_estimates(m, task):
    """task: dict(mask, ops=[...], states=[spec state after each op]) from `tlc -simulate` on SensorEstimates."""
    IS = m["inertial_sensor"]
    mask = task["mask"]
    b = bits(mask)
    # the same parameters in the argument forms the constructor documents (array_like): float lists, integer lists (1 and 0 are
    # integers - the same values), integer / float ndarrays, disabled axes spelled 0 or -1.  Nothing of the estimate arithmetic may
    # depend on the dtype the standard deviations were given in (seeded change C14_8: an integer accumulator).
    form = int(task.get("seed", mask)) % 4
    off = -1 if form == 3 else 0
    cast = (lambda v: [float(x) for x in v]) if form == 0 else (lambda v: [int(x) for x in v]) if form == 1 else \
           (lambda v: np.array(v, dtype=np.int64)) if form == 2 else (lambda v: np.array(v, dtype=float))
    cast2 = lambda M_: [cast(r) if form < 2 else list(r) for r in M_] if form < 2 else np.array(M_, dtype=np.int64 if form == 2 else float)
    em = IS.EstimationModel(bias_sd=cast([1 if x else off for x in b["bias"]]), bias_walk=None,
                            noise=cast([1 if x else off for x in b["noise"]]),
                            scale_misal_sd=cast2([[1 if b["sm"][o][i] else off for i in range(3)] for o in range(3)]))
    n = em.n_states
    vec = lambda j: np.array([((j * k + j) % 5) - 2 for k in range(1, n + 1)]) / 64.0
    for op, st in zip(task["ops"], task["states"]):
        try:
            if op[0] == "reset":
                em.reset_estimates()
            elif op[0] == "update":
                x = vec(op[1]); snap = x.copy()
                em.update_estimates(x)
                if not np.array_equal(x, snap):
                    return "update_estimates modified its argument"
            elif op[0] == "get":
                got = em.get_estimates().values * 64.0
                if not np.array_equal(got, np.array(st["ret"]["get"], dtype=float)):
                    return "get_estimates = %r, specification %r after %s" % (got.tolist(), list(st["ret"]["get"]), task["ops"])
            elif op[0] == "correct":
                b_s, t_s = st["ret"]["corr"]
                Tm = np.eye(3) + np.array([list(r) for r in t_s], dtype=float) / 64.0
                bv = np.array(list(b_s), dtype=float) / 64.0
                dtv = np.array([0.25, 0.25, 0.5, 1.0])
                inc = np.array([[1.0, 2.0, 3.0], [-2.0, 0.5, 4.0], [0.25, -1.0, 2.0], [8.0, 1.0, -0.5]])
                df = m["pd"].DataFrame(inc, index=[0.25, 0.5, 1.0, 2.0], columns=["x", "y", "z"])
                got = em.correct_increments(dtv, df).values
                exp = np.linalg.solve(Tm, (inc - bv * dtv[:, None]).T).T
                if not np.allclose(got, exp, rtol=1e-9, atol=1e-9):
                    return "correct_increments does not use the current estimates (max |d| = %.3g) after %s" % (float(np.max(np.abs(got - exp))), task["ops"])
            elif op[0] == "H":
                r = np.array(op[1], dtype=float)
                H = em.output_matrix(r)
                exp = np.array([list(row) for row in st["ret"]["h"]], dtype=float).reshape(3, n)
                if not np.array_equal(H, exp):
                    return "output_matrix(%r) differs from the specification after %s" % (list(op[1]), task["ops"])
        except Exception as e:
            return "%s raised %s: %s" % (op, type(e).__name__, e)
        # after every action: estimates = sum since reset; internal state matches
        exp_b = np.array(list(st["bias"]), dtype=float) / 64.0
        exp_t = np.eye(3) + np.array([list(r) for r in st["tr"]], dtype=float) / 64.0
        if not (np.array_equal(em.bias, exp_b) and np.array_equal(em.transform, exp_t)):
            return "estimate state after %s differs from the specification (bias %r, transform-I %r)" % (op, em.bias.tolist(), (em.transform - np.eye(3)).tolist())
        if not np.array_equal(em.get_estimates().values * 64.0, np.array(list(st["sum"]), dtype=float)):
            return "get_estimates is not the sum of the updates since the last reset after %s" % (task["ops"],)
    return None


def noise_observations(m, seed):
    """Measure exponent and magnitude of the simulator's random terms (seeded)."""
    IS = m["inertial_sensor"]; pd = m["pd"]
    obs = []
    sig = np.array([0.5, 1.0, 2.0])
    n = 20000
    for stype in ("rate", "increment"):
        var = {}
        for dt in (1.0, 0.25):
            par = IS.Parameters(noise=sig, rng=seed % (2 ** 31))
            df = pd.DataFrame(np.zeros((n, 3)), index=np.arange(n) * dt, columns=["a", "b", "c"])
            out = par.apply(df, stype).values
            var[dt] = out.var(axis=0)
        expo = np.log(var[0.25] / var[1.0]) / np.log(0.25)
        obs.append(dict(kind=stype, exponent=int(np.round(expo.mean())), exact=bool(np.allclose(expo, np.round(expo), atol=1e-9)),
                        percent=int(round(100 * float((var[1.0] / sig ** 2).mean())))))
    # irregular sampling: alternating intervals 0.5 s / 1.5 s; every sample must scale with its own (backward) interval
    n2 = 40001
    st = np.cumsum(np.hstack([0.0, np.tile([0.5, 1.5], n2 // 2)]))
    dts = np.hstack([st[1] - st[0], np.diff(st)])
    for stype in ("rate", "increment"):
        par = IS.Parameters(noise=sig, rng=(seed + 17) % (2 ** 31))
        out = par.apply(pd.DataFrame(np.zeros((len(st), 3)), index=st, columns=["a", "b", "c"]), stype).values[1:]
        d = dts[1:]
        v_small, v_big = out[d == 0.5].var(axis=0), out[d == 1.5].var(axis=0)
        expo = np.log(v_big / v_small) / np.log(3.0)
        assumed = sig ** 2 * (1.5 ** (-1 if stype == "rate" else 1))
        obs.append(dict(kind=stype + "_irregular", exponent=int(np.round(expo.mean())), exact=False,
                        percent=int(round(100 * float((v_big / assumed).mean())))))
    # bias walk: variance q^2 t, measured at T/4 and T over many seeded runs
    q = np.array([0.5, 1.0, 2.0]); nrun = 700; rows = 65
    stamps = np.cumsum(np.hstack([0.0, np.tile([0.5, 1.5], rows // 2)]))      # irregular: total time 64
    ends, quart = [], []
    iq = int(np.searchsorted(stamps, stamps[-1] / 4))
    for r in range(nrun):
        par = IS.Parameters(bias=[1.0, 1.0, 1.0], bias_walk=q, rng=(seed * 1000 + r) % (2 ** 31))
        par.apply(pd.DataFrame(np.zeros((len(stamps), 3)), index=stamps, columns=["a", "b", "c"]), "rate")
        bp = par.data_frame[["bias_x", "bias_y", "bias_z"]].values - 1.0
        ends.append(bp[-1] / q); quart.append(bp[iq] / q)
    ve = float(np.mean(np.square(ends))); vq = float(np.mean(np.square(quart)))
    obs.append(dict(kind="walk", exponent=int(np.round(np.log(ve / vq) / np.log(stamps[-1] / stamps[iq]))), exact=False,
                    percent=int(round(100 * ve / stamps[-1]))))
    obs.append(dict(kind="walk_growth", exponent=0, exact=False, percent=int(round(100 * (ve / vq) / (stamps[-1] / stamps[iq])))))
    # exact laws: the random terms depend on the sampling intervals only, not on where the time axis starts
    T = np.array([[1.0, 0.25, 0.0], [-0.125, 1.5, 0.0], [0.0, 0.0, 0.75]])
    R = np.random.RandomState(seed % (2 ** 31)).randint(-8, 9, (len(stamps), 3)).astype(float)
    first_ok, finite_ok = True, True
    shift_ok = {"rate": True, "increment": True}
    for t0 in (256.0, 1024.0, -8.0, -1024.0):
        for stype in ("rate", "increment"):
            outs = []
            for off in (0.0, t0):
                par = IS.Parameters(transform=T, bias=[1.0, -2.0, 0.5], noise=sig, bias_walk=q, rng=(seed + 5) % (2 ** 31))
                out = par.apply(pd.DataFrame(R, index=stamps + off, columns=["a", "b", "c"]), stype)
                outs.append((out.values, par.data_frame.values))
                if not np.array_equal(par.data_frame[["bias_x", "bias_y", "bias_z"]].values[0], [1.0, -2.0, 0.5]):
                    first_ok = False
                if not (np.isfinite(out.values).all() and np.isfinite(par.data_frame.values).all()):
                    finite_ok = False
            if not (np.array_equal(outs[0][0], outs[1][0]) and np.array_equal(outs[0][1], outs[1][1])):
                shift_ok[stype] = False
    obs.append(dict(kind="walk_starts_at_first_sample", holds=bool(first_ok), exponent=0, percent=100))
    obs.append(dict(kind="finite_for_negative_time", holds=bool(finite_ok), exponent=0, percent=100))
    for stype in ("rate", "increment"):
        obs.append(dict(kind="shift_invariant_" + stype, holds=bool(shift_ok[stype]), exponent=0, percent=100))
    return obs


# ---------------------------------------------------------------------------------------------
# extended coverage: JointSystem.tla (block layout of the joint INS + gyro + accelerometer system)

JOINT_INV = ["SensorRowsZero", "NoDirectPositionDrive", "QStructure", "WalkOwnBias", "DimsAgree"]
SCALE = {"bias": 1e-4, "walk": 1e-6, "noise": 1e-5, "sm": 1e-4}


def model_from_mask(IS, mask):
    b = bits(mask)
    return IS.EstimationModel(bias_sd=[P_BIAS[a] * SCALE["bias"] if b["bias"][a] else 0.0 for a in range(3)],
                              noise=[P_NOISE[a] * SCALE["noise"] if b["noise"][a] else 0.0 for a in range(3)],
                              bias_walk=[P_WALK[a] * SCALE["walk"] if b["walk"][a] else 0.0 for a in range(3)],
                              scale_misal_sd=[[P_SM[o][i] * SCALE["sm"] if b["sm"][o][i] else 0.0 for i in range(3)] for o in range(3)])


def joint_replay(m, cfg):
    """cfg: parsed JOINT line. Runs both filters with models built from the masks, captures (F, Q) handed to
    kalman.compute_process_matrices and compares their zero pattern / sensor-block diagonal with the specification."""
    _, alt, gmask, amask, nstates, nnoise, fmay, qmay, qdiag, gstates, astates = cfg
    IS, K, F_, M_ = m["inertial_sensor"], m["kalman"], m["filters"], m["measurements"]
    pd = m["pd"]
    rng = np.random.RandomState(gmask % 1000 + amask % 777)
    out = []
    fmay = {(int(a), int(b)) for a, b in fmay}
    qmay = {(int(a), int(b)) for a, b in qmay}
    qd = {int(i): int(ax) for i, ax in qdiag}
    captured = []
    orig = K.compute_process_matrices

    def cpm(Fm, Qm, dt):
        captured.append((np.array(Fm, dtype=float), np.array(Qm, dtype=float)))
        return orig(Fm, Qm, dt)
    pva = filt.make_pva(m, 0.0, rng, 0.0)
    stamps = np.arange(1, 9) * 0.25
    incs = filt.make_increments(m, 0.0, stamps, rng)
    pos = filt.make_meas_data(m, "Position", [0.5, 1.25], pva, rng)
    traj = pd.DataFrame(np.tile(pva.values, (9, 1)) + 1e-6 * rng.randn(9, 9), index=pd.Index(np.hstack([0.0, stamps]), name="time"), columns=list(pva.index))
    for kind in ("fb", "ff"):
        gm, am = model_from_mask(IS, gmask), model_from_mask(IS, amask)
        captured.clear()
        K.compute_process_matrices = cpm
        try:
            if kind == "fb":
                res = F_.run_feedback_filter(pva, 1.0, 0.1, 0.1, 1.0, incs, gm, am, [M_.Position(pos, 1.0)], time_step=0.5, with_altitude=bool(alt))
            else:
                res = F_.run_feedforward_filter(traj, traj, 1.0, 0.1, 0.1, 1.0, gm, am, [M_.Position(pos, 1.0)], incs, time_step=0.5, with_altitude=bool(alt))
        except Exception as e:
            out.append("%s filter raised %s: %s" % (kind, type(e).__name__, str(e)[:120]))
            continue
        finally:
            K.compute_process_matrices = orig
        if list(res.gyro.columns) != [name(c) for c in gstates] or list(res.accel.columns) != [name(c) for c in astates]:
            out.append("%s: result columns %s / %s differ from the model states" % (kind, list(res.gyro.columns), list(res.accel.columns)))
        if not captured:
            out.append("%s: compute_process_matrices was never called" % kind)
        for Fm, Qm in captured:
            if Fm.shape != (nstates, nstates) or Qm.shape != (nstates, nstates):
                out.append("%s: joint system is %s, specification says %d states" % (kind, Fm.shape, nstates)); break
            badF = [(i + 1, j + 1) for i, j in zip(*np.nonzero(Fm)) if (i + 1, j + 1) not in fmay]
            badQ = [(i + 1, j + 1) for i, j in zip(*np.nonzero(Qm)) if (i + 1, j + 1) not in qmay]
            if badF:
                out.append("%s: F has non-zero entries outside the layout at %s" % (kind, badF[:4])); break
            if badQ:
                out.append("%s: Q has non-zero entries outside the layout at %s" % (kind, badQ[:4])); break
            for i, ax in qd.items():
                exp = np.float64((P_WALK[ax - 1] if ax < 10 else P_WALK[ax - 11]) * SCALE["walk"]) ** 2
                if Qm[i - 1, i - 1] != exp:
                    out.append("%s: Q[%d,%d] = %r, the bias-walk intensity of that state squared is %r" % (kind, i, i, Qm[i - 1, i - 1], exp)); break
    return out


def joint_system(rep, tier, seed, valid_masks):
    rng = np.random.RandomState(seed + 5)
    pick = {0, 0b111, 0b111111, 2 ** 18 - 1} | {int(x) for x in rng.choice(valid_masks, size=3 if tier == "quick" else 10, replace=False)}
    r = tlc.run_tlc("JointSystem", dict(spec="Spec", constants=dict(Masks=pick), invariants=JOINT_INV), workers=4, timeout=3600)
    rep.add_tlc("JointSystem[%d masks x %d masks x 2 modes]" % (len(pick), len(pick)), r, note="extended coverage, no listed property claimed")
    if not r.ok:
        rep.machinery("leg M: JointSystem violates %s" % r.violated)
    cfgs = []
    for line in r.prints:
        v = tlc.parse_value(line)
        if v[0] == "JOINT":
            cfgs.append(v)
    n_bad = 0
    for k, status, out in pool.run_tasks(lambda m, c: joint_replay(m, c), cfgs, init=filt.init_worker, task_timeout=600):
        rep.traces += 1
        if status != "done":
            rep.machinery("joint system replay %s: %s" % (status, str(out)[:300]))
        else:
            for p in out[:1]:
                n_bad += 1
                rep.model_drift("JointSystem (with_altitude=%s, gyro mask %d, accel mask %d): %s" % (cfgs[k][1], cfgs[k][2], cfgs[k][3], p))
    rep.extra["joint_system"] = dict(configurations=len(cfgs), mismatches=n_bad,
                                     note="extended coverage: a mismatch is reported as MODEL-DRIFT, it is not a clause of C14")


def check(rep, pid, tier, seed):
    rep.assumptions += [
        "layouts are compared on models built with a distinct prime per slot (a value identifies the slot it came from)",
        "estimate arithmetic is replayed on multiples of 2^-6 (exact in floats), the inverse law with rtol 1e-9 (A4)",
        "variance magnitudes are statistical: +-10 % (white noise, 20 000 samples), +-25 % (bias walk, 2 100 samples), >= 5 sigma; exponents are exact",
    ]
    # ---- leg M: layouts
    slices = [("corners", 0)] + ([("slice", seed % 64)] if tier == "quick" else [("slice", s) for s in range(64)])

    def one(job):
        mode, sl = job
        return tlc.run_tlc("SensorModel", dict(spec="Spec", constants=dict(SliceBits=6, Slice=sl, Mode=mode), invariants=LAYOUT_INV),
                           workers=1, timeout=3600, heap="2g")
    with ThreadPoolExecutor(16) as ex:
        results = list(ex.map(one, slices))
    layouts = {}
    for (mode, sl), r in zip(slices, results):
        rep.add_tlc("SensorModel[%s%s]" % (mode, "" if mode == "corners" else " %d/64" % sl), r)
        if not r.ok:
            rep.machinery("leg M: SensorModel violates %s at mask %s" % (r.violated, r.trace[-1][1].get("mask") if r.trace else "?"))
        for line in r.prints:
            L = parse_layout(line)
            layouts[L["mask"]] = L
    rep.exhaustive = (tier == "thorough")
    rep.extra["masks_enumerated"] = len(layouts)
    rep.extra["masks_valid"] = sum(1 for L in layouts.values() if not L["rejected"])
    # ---- leg R: layouts vs real models
    Ls = list(layouts.values())
    chunks = [Ls[i:i + 256] for i in range(0, len(Ls), 256)]
    nbad = 0
    for k, status, out in pool.run_tasks(lambda m, c: compare_layouts(m, c), chunks, init=filt._imports, task_timeout=600):
        if status != "done":
            rep.machinery("layout comparison chunk %s: %s" % (status, str(out)[:300]))
            continue
        rep.traces += len(chunks[k])
        rep.evaluations += len(chunks[k])
        for mask, prob in out:
            nbad += 1
            rep.violation("C14 mask %d (%s): %s" % (mask, json.dumps(bits(mask)), prob), dict(kind="layout", layout=layouts[mask]),
                          key=prob.split("(")[0][:50])
    for L in Ls:
        rep.nontrivial.add(L["mask"])
    rep.sample(dict(leg="R/layout", layout=Ls[len(Ls) // 2], verdict="real EstimationModel / Parameters agree"))
    # ---- estimate state machine
    rng = np.random.RandomState(seed)
    valid = [L["mask"] for L in Ls if not L["rejected"] and L["n_states"] > 0]
    reps = [2 ** 18 - 1 - 0b111000, 0b000000000000000001, 0b100000000000000000, 0b000010000000000111]
    reps += [int(x) for x in rng.choice(valid, size=4 if tier == "quick" else 40, replace=False)]
    if tier == "thorough":
        reps += [1 << k for k in (0, 1, 2)] + [1 << k for k in range(9, 18)]
    reps = sorted(set(reps))

    def est(mask):
        return tlc.run_tlc("SensorEstimates", dict(spec="Spec", constants=dict(M=mask, NVec=3, MaxOps=4, Accumulate=True), invariants=EST_INV),
                           workers=1, coverage=True, heap="2g")
    def sim(mask):
        return tlc.run_tlc("SensorEstimates", dict(init="Init", next="Next", constants=dict(M=mask, NVec=3, MaxOps=8, Accumulate=True)),
                           workers=1, simulate=dict(num=12 if tier == "quick" else 100, file=True), depth=9, seed=seed + mask, heap="2g")
    with ThreadPoolExecutor(16) as ex:
        eres = list(ex.map(est, reps))
        sres = list(ex.map(sim, reps))
    tasks = []
    for mask, r, s in zip(reps, eres, sres):
        rep.add_tlc("SensorEstimates[M=%d,MaxOps=4]" % mask, r)
        if not r.ok:
            rep.machinery("leg M: SensorEstimates violates %s for mask %d" % (r.violated, mask))
        rep.add_tlc("SensorEstimates[-simulate,M=%d]" % mask, s, note="behaviour generation for leg R")
        for tr in s.sim_traces:
            if len(tr) > 1:
                tasks.append(dict(mask=mask, seed=len(tasks), ops=[tuple(o) for o in tr[-1][1]["ops"]],
                                  states=[dict(bias=st["bias"], tr=st["tr"], sum=st["sum"], ret=st["ret"]) for _, st in tr[1:]]))
    r = tlc.run_tlc("SensorEstimates", dict(spec="Spec", constants=dict(M=reps[0], NVec=3, MaxOps=3, Accumulate=False), invariants=EST_INV), workers=2)
    rep.extra.setdefault("spec_sensitivity", []).append(dict(model="SensorEstimates[Accumulate=FALSE]", violated=r.violated))
    if r.ok:
        rep.vacuity.append("SensorEstimates: Accumulate=FALSE is not caught")
    for k, status, out in pool.run_tasks(lambda m, t: replay_estimates(m, t), tasks, init=filt._imports, task_timeout=120):
        rep.traces += 1
        rep.evaluations += 1
        if status != "done":
            rep.machinery("estimate replay %s: %s" % (status, str(out)[:300]))
        elif out:
            rep.violation("C14 estimates, mask %d: %s" % (tasks[k]["mask"], out), dict(kind="estimates", task=dict(tasks[k], states=tlc.to_jsonable(tasks[k]["states"]))), key=out[:40])
    if tasks:
        rep.sample(dict(leg="R/estimates", mask=tasks[0]["mask"], ops=[list(o) for o in tasks[0]["ops"]]))
    # ---- extended: joint system layout
    joint_system(rep, tier, seed, valid)
    # ---- statistical clause
    m = filt._imports()
    obs = noise_observations(m, seed)
    work = tempfile.mkdtemp(prefix="vsn_")
    try:
        path = os.path.join(work, "obs.ndjson")
        with open(path, "w") as f:
            for o in obs:
                f.write(json.dumps(o) + "\n")
        r = tlc.run_tlc("SensorNoise", dict(spec="Spec"), workers=1, env={"TRACE_FILE": path})
        rep.add_tlc("SensorNoise[%d observations]" % len(obs), r)
        seen = 0
        for line in r.prints:
            v = tlc.parse_value(line)
            if v[0] == "NOISE":
                seen += 1
                o = obs[v[1] - 1]
                if not (v[3] and v[4]):
                    rep.violation(("C14 simulator law '%s' does not hold" % o["kind"]) if "holds" in o else
                                  "C14 simulated %s noise: exponent %s, variance %d %% of what the estimator assumes" % (o["kind"], o["exponent"], o["percent"]),
                                  dict(kind="noise", obs=o), key="noise")
        if seen != len(obs):
            rep.machinery("SensorNoise validated %d of %d observations" % (seen, len(obs)))
    finally:
        shutil.rmtree(work, ignore_errors=True)
    rep.extra["noise_observations"] = obs
    rep.traces += len(obs)
    rep.rule = ("cases = enable masks (TLC-enumerated layouts compared with real models and simulator tables) + TLC-simulated update histories + "
                "seeded noise measurements; distinct = distinct mask; non-trivial = every mask (each is a different layout or rejection)")


def replay(rep, pid, case):
    m = filt._imports()
    rep.traces += 1
    if case["kind"] == "layout":
        out = compare_layouts(m, [case["layout"]])
        for mask, prob in out:
            rep.violation("C14 mask %d: %s" % (mask, prob), case)
    elif case["kind"] == "estimates":
        t = case["task"]
        t["ops"] = [tuple(tuple(x) if isinstance(x, list) else x for x in o) for o in t["ops"]]
        out = replay_estimates(m, t)
        if out:
            rep.violation("C14 estimates: %s" % out, case)
    else:
        obs = noise_observations(m, rep.seed)
        rep.extra["noise_observations"] = obs
