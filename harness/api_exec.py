"""Executing TLC-generated API programs on the real pyins and recording what ApiTrace.tla validates (C19).

For every call the record holds: bit fingerprints (A2) of every argument as passed, before and after the call; fingerprints of the
results; whether the results agree with the canonical-form call on deep copies (form agreement, rtol 1e-12; row 0 for stacked
forms); whether returned tables carry the documented schema of their kind; the exception text if the call raised."""
import copy, hashlib, inspect
import numpy as np
from . import api_registry as R


# ---------------------------------------------------------------------------------------------
def fp(obj, depth=0):
    """Bit-level fingerprint of a value / object state."""
    h = hashlib.sha1()
    _feed(h, obj, 0)
    return h.hexdigest()[:16]


def _feed(h, o, d):
    import pandas as pd
    from scipy.spatial.transform import Rotation
    if d > 6:
        h.update(b"<deep>")
    elif o is None or isinstance(o, (bool, int, str)):
        h.update(repr(o).encode())
    elif isinstance(o, float):
        h.update(np.float64(o).tobytes())
    elif isinstance(o, np.generic):
        h.update(str(o.dtype).encode() + o.tobytes())
    elif isinstance(o, np.ndarray):
        h.update(str(o.dtype).encode() + str(o.shape).encode())
        h.update(np.ascontiguousarray(o).tobytes() if o.dtype != object else repr(o.tolist()).encode())
    elif isinstance(o, pd.DataFrame):
        h.update(b"DF" + ",".join(map(str, o.columns)).encode() + str(o.index.name).encode())
        _feed(h, np.asarray(o.index), d + 1)
        for c in o.columns:
            _feed(h, np.asarray(o[c].values), d + 1)
    elif isinstance(o, pd.Series):
        h.update(b"SR" + ",".join(map(str, o.index)).encode() + repr(o.name).encode())
        _feed(h, np.asarray(o.values), d + 1)
    elif isinstance(o, pd.Index):
        _feed(h, np.asarray(o), d + 1)
    elif isinstance(o, Rotation):
        _feed(h, o.as_quat(), d + 1)
    elif isinstance(o, np.random.RandomState):
        st = o.get_state()
        h.update(np.asarray(st[1]).tobytes() + repr(st[2:]).encode())
    elif isinstance(o, (list, tuple)):
        h.update(b"L%d" % len(o))
        for x in o:
            _feed(h, x, d + 1)
    elif isinstance(o, dict):
        h.update(b"D%d" % len(o))
        for k in sorted(o, key=str):
            h.update(str(k).encode())
            _feed(h, o[k], d + 1)
    elif hasattr(o, "trajectory") and hasattr(o, "mat_nb"):
        # strapdown.Integrator: the observable state is the trajectory and the used part of the buffers (the rest is scratch)
        n = len(o.trajectory)
        h.update(b"Integrator" + repr(o.with_altitude).encode())
        _feed(h, [o.trajectory, o.lla[:n], o.velocity_n[:n], o.mat_nb[:n]], d + 1)
    elif hasattr(o, "__dict__"):
        h.update(type(o).__name__.encode())
        _feed(h, {k: v for k, v in vars(o).items()}, d + 1)
    else:
        h.update(repr(o).encode())


def numeric_leaves(o):
    """Flatten a result into a list of float arrays (for tolerance comparison across forms)."""
    import pandas as pd
    from scipy.spatial.transform import Rotation
    if o is None:
        return []
    if isinstance(o, (pd.DataFrame, pd.Series)):
        return [np.asarray(o.values, dtype=float)]
    if isinstance(o, Rotation):
        q = o.as_quat()
        return [q * np.sign(q[..., -1:] + 1e-300)]
    if isinstance(o, (list, tuple)):
        if o and all(isinstance(x, (int, float, np.floating, np.integer)) for x in o):
            return [np.asarray(o, dtype=float)]
        return [x for y in o for x in numeric_leaves(y)]
    if isinstance(o, dict):
        return [x for k in sorted(o, key=str) for x in numeric_leaves(o[k])]
    if hasattr(o, "trajectory") and hasattr(o, "mat_nb"):
        return numeric_leaves(o.trajectory)
    if hasattr(o, "__dict__") and not isinstance(o, np.ndarray):
        return numeric_leaves({k: v for k, v in vars(o).items() if not isinstance(v, np.random.RandomState)})
    try:
        return [np.asarray(o, dtype=float)]
    except Exception:
        return []


# ---------------------------------------------------------------------------------------------
class Scenario:
    """Base objects: two content-distinct objects of every kind, rebuilt identically for every program (seeded)."""

    def __init__(self, m, seed=0):
        pd = m["pd"]
        self.m = m
        sim, strapdown, IS, EM, MS = m["sim"], m["strapdown"], m["inertial_sensor"], m["error_model"], m["measurements"]
        rng = np.random.RandomState(1000 + seed)
        o = {}
        trajA, imuA = sim.generate_sine_velocity_motion(0.1, 4.0, [55.0, 37.0, 120.0], [3.0, 1.0, 0.0], [1.0, 0.5, 0.1], 3.0)
        trajB, imuB = sim.generate_sine_velocity_motion(0.2, 6.0, [-33.5, -122.0, 3000.0], [-2.0, 4.0, 0.5], [0.5, 1.0, 0.0], 5.0)
        for v, (tr, im) in (("A", (trajA, imuA)), ("B", (trajB, imuB))):
            o["traj", v] = tr
            o["imu", v] = im
            o["pva", v] = tr.iloc[0].copy()          # the state the increments table continues from
            o["pvar", v] = pd.concat([tr.iloc[3], pd.Series([0.01, -0.02, 0.03], index=["rate_x", "rate_y", "rate_z"])])
            o["pvar", v].name = tr.index[3]
            incs = strapdown.compute_increments_from_imu(im, "rate")
            if v == "B":
                incs = incs.copy()
                incs.index = pd.Index(np.asarray(incs.index), name=None)      # hand-built / CSV data: an index without a name
            o["incs", v] = incs
            o["incrow", v] = incs.iloc[0].copy()
            o["times", v] = np.asarray(tr.index[2:20:3], dtype=float) + 0.03
            o["bodyvel", v] = pd.DataFrame(rng.randn(len(tr), 3), index=tr.index, columns=["VX", "VY", "VZ"])
        o["lat", "A"], o["lat", "B"] = 55.0, -33.5
        o["lon", "A"], o["lon", "B"] = 37.0, -122.0
        o["alt", "A"], o["alt", "B"] = 120.0, 3000.0
        o["dt", "A"], o["dt", "B"] = 0.5, 0.25
        o["sd", "A"], o["sd", "B"] = 1.0, 0.1
        o["ratio", "A"], o["ratio", "B"] = 4.0, 4.2          # smoothing time / sampling interval: same filter length, different cutoff
        o["flag", "A"], o["flag", "B"] = True, False
        o["lla", "A"], o["lla", "B"] = np.array([55.0, 37.0, 120.0]), np.array([-33.5, -122.0, 3000.0])
        o["ecef", "A"], o["ecef", "B"] = np.array([2927000.5, 2205600.25, 5201400.75]), np.array([-2821000.0, -4515000.5, -3500300.25])
        o["rph", "A"], o["rph", "B"] = np.array([1.0, -2.0, 40.0]), np.array([10.0, 5.0, -170.0])
        o["vec3", "A"], o["vec3", "B"] = np.array([0.5, -0.3, 0.2]), np.array([1.0, 2.0, 3.0])
        o["mat", "A"] = m["transform"].mat_from_rph([1.0, -2.0, 40.0]); o["mat", "B"] = m["transform"].mat_from_rph([10.0, 5.0, -170.0])
        o["stack", "A"], o["stack", "B"] = rng.randn(4, 3, 3), rng.randn(4, 3, 3)
        o["vecs", "A"], o["vecs", "B"] = rng.randn(4, 3), rng.randn(4, 3)
        o["angle", "A"], o["angle", "B"] = np.array([0.0, 179.5, 180.0, 181.0, -180.0, -540.5, 725.25]), np.array([10.0, -10.0, 359.0])
        o["F", "A"], o["F", "B"] = np.array([[0.0, 1.0, 0.0], [0.0, 0.0, 1.0], [0.0, 0.0, 0.0]]), rng.randn(3, 3)
        B1 = rng.randn(3, 2); B2 = rng.randn(3, 3)
        o["Qm", "A"], o["Qm", "B"] = B1 @ B1.T, B2 @ B2.T
        o["kx", "A"], o["kx", "B"] = rng.randn(3), np.zeros(3)      # the feedback filter calls correct with an all-zero a-priori vector
        A1 = rng.randn(3, 3); A2 = rng.randn(3, 3)
        o["kP", "A"], o["kP", "B"] = A1 @ A1.T, A2 @ A2.T
        o["kz", "A"], o["kz", "B"] = rng.randn(2), rng.randn(2)
        o["kH", "A"], o["kH", "B"] = rng.randn(2, 3), rng.randn(2, 3)
        o["kR", "A"], o["kR", "B"] = np.diag([0.5, 2.0]), np.array([[2.0, 0.5], [0.5, 1.0]])
        o["pvaerr", "A"] = pd.Series([3.0, -2.0, 1.0, 0.1, -0.2, 0.05, 0.1, -0.1, 0.5], index=R.SCHEMAS["pva_error"][0])
        o["pvaerr", "B"] = pd.Series([-1.0, 4.0, 0.5, 0.0, 0.3, -0.1, -0.2, 0.05, -1.0], index=R.SCHEMAS["pva_error"][0])
        o["xerr", "A"], o["xerr", "B"] = 1e-3 * rng.randn(9), 1e-3 * rng.randn(9)
        o["xest", "A"], o["xest", "B"] = 1e-3 * rng.randn(12), 1e-3 * rng.randn(12)
        o["sdvec", "A"], o["sdvec", "B"] = np.array([0.1, 0.2, 0.3]), np.array([0.01, -1.0, 0.02])     # a non-positive element disables the axis (documented)
        from scipy.spatial.transform import Rotation
        o["rot", "A"] = Rotation.from_euler("xyz", rng.randn(20, 3) * 5, degrees=True)
        o["rot", "B"] = Rotation.from_euler("xyz", rng.randn(20, 3) * 20, degrees=True)
        o["integrator", "A"] = strapdown.Integrator(trajA.iloc[0], True)
        o["integrator", "B"] = strapdown.Integrator(trajB.iloc[0], False)
        o["errmodel", "A"], o["errmodel", "B"] = EM.InsErrorModel(True), EM.InsErrorModel(False)
        o["meas", "A"] = MS.Position(trajA.iloc[::7] + 1e-6, 1.0, np.array([0.5, -0.3, 0.2]))
        o["meas", "B"] = MS.NedVelocity(trajB.iloc[::5] + 1e-3, 0.1)
        o["estmodel", "A"] = IS.EstimationModel(bias_sd=1e-3, noise=1e-4, bias_walk=1e-6, scale_misal_sd=1e-3)
        o["estmodel", "B"] = IS.EstimationModel(bias_sd=[1e-2, 0, 1e-2], noise=[1e-3, 1e-3, 0])
        o["params", "A"] = IS.Parameters(transform=np.eye(3) + 1e-3 * rng.randn(3, 3), bias=[0.1, -0.2, 0.3], noise=0.01, bias_walk=[1e-3, 0, 0], rng=5)
        o["params", "B"] = IS.Parameters(bias=[0.0, 0.5, 0.0], noise=[0.0, 0.1, 0.0], rng=6)
        o["turntable", "A"] = sim.Turntable([55.0, 37.0, 120.0])
        o["turntable", "B"] = sim.Turntable([-33.5, -122.0, 3000.0], angular_rate=10)
        self.base = o

    def pool(self):
        return dict(self.base)


def to_form(kind, obj, form, other):
    """The object in the requested argument form; `other` (the B/A sibling) supplies the extra rows of stacked forms."""
    import pandas as pd
    if form == "n":
        return None
    if form == "o":
        return obj
    if np.isscalar(obj) or isinstance(obj, (bool, float)):
        x = obj
        if isinstance(x, bool):
            return x
        if form == "s":
            return float(x)
        if form == "a":
            return np.float64(x)
        rows = np.array([x, other if other is not None else x + 1.0, x * 0.5 + 1.0], dtype=float)
        return rows if form == "k" else pd.Series(rows)
    if isinstance(obj, np.ndarray) and obj.ndim == 1 and kind not in ("times", "angle", "kx", "kz", "xerr", "xest", "sdvec"):
        if form == "a":
            return obj
        if form == "l":
            return [float(v) for v in obj]
        if form == "S":
            return pd.Series(obj.copy())
        rows = np.vstack([obj, other if other is not None else obj * 1.5, obj * 0.5 + 1.0])
        return rows if form == "k" else pd.DataFrame(rows, columns=["c1", "c2", "c3"])
    if isinstance(obj, np.ndarray):
        if form == "a":
            return obj
        if form == "l":
            return obj.tolist()
        if form == "s":
            return float(obj.ravel()[1])
        if form == "S":
            return pd.Series(obj.copy())
        if form == "D":
            return pd.DataFrame({"a": obj.copy()})
        if form == "k":
            return np.stack([obj, other if other is not None else obj, obj])
    if isinstance(obj, pd.DataFrame):
        return obj if form == "D" else (obj.values if form == "a" else obj)
    return obj


STACKED = ("k",)


def is_stacked(kind, obj, form):
    import pandas as pd
    if form == "k":
        return True
    scalar = np.isscalar(obj) or isinstance(obj, float)
    return bool(form == "S" and scalar) or bool(form == "D" and isinstance(obj, np.ndarray) and obj.ndim == 1 and kind not in ("angle",))


# ---------------------------------------------------------------------------------------------
def adapters(m):
    earth, T, U, K, SD, EM, MS, IS, sim, F = (m["pyins"].earth, m["transform"], m["util"], m["kalman"], m["strapdown"], m["error_model"],
                                              m["measurements"], m["inertial_sensor"], m["sim"], m["filters"])
    pd = m["pd"]
    LLA, VEL, RPHC = ["lat", "lon", "alt"], ["VN", "VE", "VD"], ["roll", "pitch", "heading"]

    def llas(tr):
        return tr[LLA].values if isinstance(tr, pd.DataFrame) else np.asarray(tr)[:, :3]

    def meas_list(x):
        return None if x is None else [x]

    def gen_imu(times, tr, with_vel):
        t = np.asarray(tr.index) if False else (list(tr.index) if isinstance(times, list) else np.asarray(tr.index))
        return sim.generate_imu(t, tr[LLA].values if not with_vel else tr[LLA].values[0], tr[RPHC].values, tr[VEL].values if with_vel else None)

    def fb(pva, incs, g, a, ms):
        # the tables are handed over as they are (no slicing in the adapter: a slice would be a copy and hide a mutation)
        r = F.run_feedback_filter(pva, 1.0, 0.1, 0.1, 1.0, incs, g, a, meas_list(ms), time_step=0.5)
        return r.trajectory, r.trajectory_sd, r.gyro, r.accel, r.innovations

    def ff(tr, incs, g, a, ms):
        if incs is None and (g.scale_misal_modelled or a.scale_misal_modelled):
            incs_arg = m["strapdown"].compute_increments_from_imu(m["sim"].generate_imu(np.asarray(tr.index), tr[LLA].values, tr[RPHC].values)[1], "rate")
        else:
            incs_arg = incs
        r = F.run_feedforward_filter(tr, tr, 1.0, 0.1, 0.1, 1.0, g, a, meas_list(ms), incs_arg, time_step=0.5)
        return r.trajectory, r.trajectory_sd, r.gyro, r.accel, r.innovations

    A = {
        "earth.principal_radii": lambda lat, alt: earth.principal_radii(lat, alt),
        "earth.gravity": lambda lat, alt: (earth.gravity(lat, alt),),
        "earth.gravity_n": lambda lat, alt: (earth.gravity_n(lat, alt),),
        "earth.gravitation_ecef": lambda lla: (earth.gravitation_ecef(lla),),
        "earth.curvature_matrix": lambda lat, alt: (earth.curvature_matrix(lat, alt),),
        "earth.rate_n": lambda lat: (earth.rate_n(lat),),
        "transform.lla_to_ecef": lambda lla: (T.lla_to_ecef(lla),),
        "transform.ecef_to_lla": lambda e: (T.ecef_to_lla(e),),
        "transform.lla_to_ned": lambda tr, org: (T.lla_to_ned(tr if isinstance(tr, pd.DataFrame) else tr[:, :3], org),),
        "transform.perturb_lla": lambda lla, d: (T.perturb_lla(lla, d),),
        "transform.translate_trajectory[traj]": lambda tr, v: (T.translate_trajectory(tr, v),),
        "transform.translate_trajectory[pva]": lambda p, v: (T.translate_trajectory(p, v),),
        "transform.compute_lla_difference": lambda a, b: (T.compute_lla_difference(a, b),),
        "transform.resample_state": lambda tr, ts: (T.resample_state(tr, ts),),
        "transform.compute_state_difference[traj]": lambda a, b: (T.compute_state_difference(a, b),),
        "transform.compute_state_difference[pva]": lambda a, b: (T.compute_state_difference(a, b),),
        "transform.smooth_rotations": lambda r, dt, ratio: T.smooth_rotations(r, dt, ratio * dt),
        "transform.smooth_state": lambda tr, ratio: (T.smooth_state(tr, ratio * float(np.min(np.diff(tr.index)))),),
        "transform.mat_en_from_ll": lambda lat, lon: (T.mat_en_from_ll(lat, lon),),
        "transform.mat_from_rph": lambda r: (T.mat_from_rph(r),),
        "transform.mat_to_rph": lambda mt: (T.mat_to_rph(mt),),
        "util.mm_prod": lambda a, b: (U.mm_prod(a, b), ),
        "util.mm_prod_symmetric": lambda a, b: (U.mm_prod_symmetric(a, b),),
        "util.mv_prod": lambda a, v: (U.mv_prod(a, np.asarray(v) if isinstance(v, list) else v),),
        "util.skew_matrix": lambda v: (U.skew_matrix(v),),
        "util.compute_rms": lambda tr: (U.compute_rms(tr),),
        "util.to_180_range": lambda a: (U.to_180_range(a),),
        "util.Bunch": lambda tr: (U.Bunch(trajectory=tr, n=len(tr)),),
        "kalman.compute_process_matrices": lambda F_, Q, dt: K.compute_process_matrices(F_, Q, dt),
        "kalman.correct": lambda x, P_, z, H, R_: K.correct(x, P_, z, H, R_),
        "strapdown.compute_increments_from_imu[rate]": lambda imu: (SD.compute_increments_from_imu(imu, "rate"),),
        "strapdown.compute_increments_from_imu[increment]": lambda imu: (SD.compute_increments_from_imu(imu, "increment"),),
        "strapdown.Integrator": lambda pva: (SD.Integrator(pva),),
        "strapdown.Integrator.integrate": lambda it, incs: (it.integrate(incs),),
        "strapdown.Integrator.predict": lambda it, row: (it.predict(row),),
        "strapdown.Integrator.get_pva": lambda it: (it.get_pva(),),
        "strapdown.Integrator.get_time": lambda it: (it.get_time(),),
        "strapdown.Integrator.set_pva": lambda it, pva: (it.set_pva(pva),),
        "error_model.InsErrorModel": lambda flag: (EM.InsErrorModel(flag),),
        "error_model.InsErrorModel.system_matrices[traj]": lambda e, tr: e.system_matrices(tr),
        "error_model.InsErrorModel.system_matrices[pva]": lambda e, p: e.system_matrices(p),
        "error_model.InsErrorModel.transform_to_output[traj]": lambda e, tr: (e.transform_to_output(tr),),
        "error_model.InsErrorModel.transform_to_output[pva]": lambda e, p: (e.transform_to_output(p),),
        "error_model.InsErrorModel.transform_to_internal": lambda e, p: (e.transform_to_internal(p),),
        "error_model.InsErrorModel.correct_pva": lambda e, p, x: (e.correct_pva(p, x[:e.n_states]),),
        "error_model.InsErrorModel.position_error_jacobian": lambda e, p, v: (e.position_error_jacobian(p, v),),
        "error_model.InsErrorModel.ned_velocity_error_jacobian": lambda e, p: (e.ned_velocity_error_jacobian(p),),
        "error_model.InsErrorModel.body_velocity_error_jacobian": lambda e, p: (e.body_velocity_error_jacobian(p),),
        # None = leave the parameter to its default (the defaults are arrays created once, at import time)
        "error_model.propagate_errors": lambda tr, pe, g, a: EM.propagate_errors(
            tr, pe, **{k: v for k, v in (("gyro_error", g), ("accel_error", a)) if v is not None}),
        "measurements.Position": lambda tr, sd, lev: (MS.Position(tr, sd, lev),),
        "measurements.NedVelocity": lambda tr, sd, lev: (MS.NedVelocity(tr, sd, lev),),
        "measurements.BodyVelocity": lambda bv, sd: (MS.BodyVelocity(bv, sd),),
        "measurements.Measurement.compute_matrices": lambda ms, p, e: (lambda r: r if r is not None else (None, None, None))(
            ms.compute_matrices(ms.data.index[1], p, e)),
        "inertial_sensor.EstimationModel": lambda b, n: (IS.EstimationModel(bias_sd=b, noise=n),),
        "inertial_sensor.EstimationModel.output_matrix": lambda e, v: (e.output_matrix(v),),
        "inertial_sensor.EstimationModel.reset_estimates": lambda e: (e.reset_estimates(),),
        "inertial_sensor.EstimationModel.update_estimates": lambda e, x: (e.update_estimates(x[:e.n_states]),),
        "inertial_sensor.EstimationModel.get_estimates": lambda e: (e.get_estimates(),),
        "inertial_sensor.EstimationModel.correct_increments": lambda e, incs: (
            e.correct_increments(incs["dt"], incs[["theta_x", "theta_y", "theta_z"]]),),
        "inertial_sensor.Parameters": lambda b, n, seed: (IS.Parameters(bias=b, noise=n, rng=seed),),
        "inertial_sensor.Parameters.from_EstimationModel": lambda e, seed: (IS.Parameters.from_EstimationModel(e, seed),),
        "inertial_sensor.Parameters.apply": lambda p, imu: (p.apply(imu[["gyro_x", "gyro_y", "gyro_z"]], "rate"),),
        "inertial_sensor.apply_imu_parameters": lambda imu, g, a: (IS.apply_imu_parameters(imu, "rate", g, a),),
        "sim.generate_imu[lla]": lambda ts, tr: gen_imu(ts, tr, False),
        "sim.generate_imu[velocity]": lambda ts, tr: gen_imu(ts, tr, True),
        "sim.generate_sine_velocity_motion": lambda dt, lla, v: sim.generate_sine_velocity_motion(dt / 5, 3.0, lla, v, 0.5, 4.0),
        "sim.generate_position_measurements": lambda tr, sd, seed: (sim.generate_position_measurements(tr, sd, seed),),
        "sim.generate_ned_velocity_measurements": lambda tr, sd, seed: (sim.generate_ned_velocity_measurements(tr, sd, seed),),
        "sim.generate_body_velocity_measurements": lambda tr, sd, seed: (sim.generate_body_velocity_measurements(tr, sd, seed),),
        "sim.generate_pva_error": lambda a, b, seed: (sim.generate_pva_error(a, b, a / 10, b, seed),),
        "sim.perturb_pva": lambda p, e: (sim.perturb_pva(p, e),),
        "sim.Turntable": lambda lla: (sim.Turntable(lla),),
        "sim.Turntable.rotate": lambda t, x: (t.rotate("inner", 90.0 * x),),
        "sim.Turntable.rest": lambda t, x: (t.rest(x),),
        "filters.run_feedback_filter": fb,
        "filters.run_feedforward_filter": ff,
    }
    return A


def introspect(m):
    """Public callables of the ten modules: functions defined in the module, public classes and their public methods."""
    names = set()
    mods = dict(earth=m["pyins"].earth, transform=m["transform"], util=m["util"], kalman=m["kalman"], strapdown=m["strapdown"],
                error_model=m["error_model"], measurements=m["measurements"], inertial_sensor=m["inertial_sensor"], sim=m["sim"], filters=m["filters"])
    for mn, mod in mods.items():
        for n, o in vars(mod).items():
            if n.startswith("_") or getattr(o, "__module__", None) != mod.__name__:
                continue
            if inspect.isfunction(o):
                names.add("%s.%s" % (mn, n))
            elif inspect.isclass(o):
                names.add("%s.%s" % (mn, n))
                for k, v in vars(o).items():
                    if not k.startswith("_") and (inspect.isfunction(v) or isinstance(v, (classmethod, staticmethod))):
                        names.add("%s.%s.%s" % (mn, n, k))
    return names


def table_names():
    names = {n.split("[")[0] for n, *_ in R.TABLE}
    if "measurements.Measurement.compute_matrices" in names:       # one entry stands for the method of the base class and its overrides
        names |= {"measurements.%s.compute_matrices" % c for c in ("Position", "NedVelocity", "BodyVelocity")}
    return names


def schema_ok(kind, res, args, j=1):
    import pandas as pd
    if not kind.startswith("tab:"):
        return True
    k = kind[4:]
    cols, idx = R.SCHEMAS[k]
    if k == "ned_or_array":
        return (not isinstance(res, pd.DataFrame)) or list(res.columns) == cols
    if k == "increments":
        # one row per IMU sample after the first, stamped with that sample's time and carrying its own interval (C15's row clause)
        src = [a for a in args if isinstance(a, pd.DataFrame) and "gyro_x" in a.columns]
        if src and isinstance(res, pd.DataFrame):
            imu = src[0]
            if not (len(res) == len(imu) - 1 and np.array_equal(np.asarray(res.index), np.asarray(imu.index[1:]))
                    and "dt" in res.columns and np.array_equal(res["dt"].values, np.diff(np.asarray(imu.index, dtype=float)))):
                return False
    if k in ("estimates", "estimates_table"):
        models = [a for a in args if hasattr(a, "states") and hasattr(a, "update_estimates")]
        if not models:
            return True
        want = list(models[min(j - 3, len(models) - 1) if k == "estimates_table" else 0].states)
        have = list(res.columns) if isinstance(res, pd.DataFrame) else (list(res.index) if isinstance(res, pd.Series) else None)
        return have == want
    if k == "innovations":
        return isinstance(res, dict) and all(isinstance(v, pd.DataFrame) for v in res.values())
    if k == "same_as_input":
        src = [a for a in args if isinstance(a, (pd.DataFrame, pd.Series))]
        return isinstance(res, (pd.DataFrame, pd.Series))
    if not isinstance(res, (pd.DataFrame, pd.Series)):
        return False
    if cols is not None:
        have = list(res.columns) if isinstance(res, pd.DataFrame) else list(res.index)
        if have != cols:
            return False
    named = all(a.index.name == idx for a in args if isinstance(a, pd.DataFrame))
    if idx is not None and named and isinstance(res, pd.DataFrame) and res.index.name != idx:
        return False          # (the index name is required when the tables passed in carry it themselves)
    return True


def run_program(m, scen, adp, prog):
    """prog: list of dict(f (1-based table index), args [[kind, variant] | ['r', n, j]], forms [...], seed).
    Returns the ndjson record for ApiTrace.tla."""
    pool = scen.pool()
    steps = []
    truncated = False
    for n, call in enumerate(prog, start=1):
        name, params, res_kinds, rnd, mut = R.TABLE[call["f"] - 1]
        keys = [tuple(a) for a in call["args"]]
        objs = [pool[k] for k in keys]
        others = []
        for k, o in zip(keys, objs):
            sib = (k[0], "B" if k[1] == "A" else "A") if k[0] != "r" else None
            others.append(scen.base.get(sib) if sib else None)
        passed = [to_form(p[0], o, f, oth) for p, o, f, oth in zip(params, objs, call["forms"], others)]
        stacked = any(is_stacked(p[0], o, f) for p, o, f in zip(params, objs, call["forms"]))
        noncanon = list(call["forms"]) != [p[2] for p in params] and "n" not in [f for f, p in zip(call["forms"], params) if f != p[2]]
        try:
            backup = copy.deepcopy(objs) if noncanon else None
        except Exception:
            backup, noncanon = None, False
        before = [fp(x) for x in passed]
        pool_before = {k: fp(pool[k]) for k in set(keys)}
        extra = [call["seed"]] if rnd else []
        exc = ""
        results = None
        try:
            results = adp[name](*passed, *extra)
            if not isinstance(results, tuple):
                results = (results,)
        except Exception as e:
            exc = "%s: %s" % (type(e).__name__, str(e)[:160])
        after = [fp(x) for x in passed]
        pool_after = {k: fp(pool[k]) for k in set(keys)}
        agree = True
        detail = ""
        if results is None and noncanon:
            # an exception is a C19 matter only as a FORM disagreement: the canonical form of the same input must raise too
            try:
                canon_passed = [to_form(p[0], o, p[2], oth) for p, o, oth in zip(params, backup, others)]
                adp[name](*canon_passed, *extra)
                agree, detail = False, "raises in this form (%s) but the canonical form of the same input is accepted" % exc
            except Exception:
                pass
        if results is not None and noncanon:
            try:
                canon_passed = [to_form(p[0], o, p[2], oth) for p, o, oth in zip(params, backup, others)]
                cres = adp[name](*canon_passed, *extra)
                if not isinstance(cres, tuple):
                    cres = (cres,)
                la = [x for r_ in results for x in numeric_leaves(r_)]
                lb = [x for r_ in cres for x in numeric_leaves(r_)]
                if len(la) != len(lb):
                    agree, detail = False, "different result structure"
                for x, y in zip(la, lb):
                    xs = x
                    if xs.shape != y.shape and xs.size == y.size:
                        xs = xs.reshape(y.shape)                      # (n, 1) table column vs (n,) array
                    elif xs.ndim == 0 and y.ndim == 1 and y.size > 1:
                        y = y[1]                                      # the scalar form passes element 1 of the array
                    if stacked and x.ndim == y.ndim + 1:
                        xs = x[0]
                    elif stacked and x.shape != y.shape and x.ndim >= 1 and x.shape[1:] == y.shape[1:] and y.shape[0] == 1:
                        xs = x[:1]
                    if xs.shape != y.shape:
                        if stacked and xs.size and y.size and xs.ndim == y.ndim and xs.shape[1:] == y.shape[1:]:
                            xs = xs[:len(y)] if len(xs) > len(y) else xs
                            y = y[:len(xs)]
                        else:
                            agree, detail = False, "shape %s vs canonical %s" % (x.shape, y.shape)
                            break
                    if not np.allclose(xs, y, rtol=1e-12, atol=1e-12 * max(1.0, float(np.max(np.abs(y))) if y.size else 1.0), equal_nan=True):
                        agree, detail = False, "values differ from the canonical-form call by %.3g" % float(np.nanmax(np.abs(xs - y)))
                        break
            except Exception as e:
                agree, detail = False, "canonical-form call raised %s: %s" % (type(e).__name__, str(e)[:100])
        res_fp, sch = [], True
        if results is not None:
            if len(results) != len(res_kinds):
                sch = False
                detail = detail or "returned %d values, table says %d" % (len(results), len(res_kinds))
            for j, (r, kd) in enumerate(zip(results, res_kinds), start=1):
                pool[("r", n, j)] = r
                res_fp.append(fp(r))
                if not schema_ok(kd, r, passed, j):
                    sch = False
                    detail = detail or "result %d does not carry the schema of %s" % (j, kd)
        if results is None:
            truncated = True
        steps.append(dict(f=call["f"], name=name, args=[list(k) for k in keys], forms=list(call["forms"]), seed=call["seed"],
                          before=before, after=after, pool_before=[pool_before[k] for k in keys], pool_after=[pool_after[k] for k in keys],
                          res=res_fp, agree=bool(agree), schema=bool(sch), exc=exc, detail=detail, stacked=bool(stacked)))
        if truncated:
            break            # later calls may depend on the results this call did not produce
    return dict(steps=steps, truncated=truncated)
