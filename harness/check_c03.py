"""C03: synthesised IMU - the exact sentence (a body at rest senses exactly Earth rate and the reaction to gravity) + measured orders.

Leg M  AtRest.tla: cardinal latitudes x the 64 cube-group attitudes: which body axis senses Earth rate / the reaction to gravity and with
       which sign (signed unit vectors), with physical statements as invariants (LevelFeelsReactionOnMinusZ, EquatorLevel, PoleLevel,
       NoseUpAtEquatorHeadingNorth, RightWingDown, Geometry).
Leg R  every configuration through sim.generate_imu for a constant state, both sensor types: gyro == RATE x the model's vector (1e-12),
       accel == gravity x the model's vector (2e-5 m/s^2: the spline's second derivative of a 6.4e6 m position), increments = rate x dt,
       the returned trajectory is the constant state.
       Numeric predicates, harness-computed and labelled: the same at seeded general latitudes / altitudes / attitudes against
       earth.rate_n / earth.gravity_n (cross-consistency); the three accepted forms (position + velocity, position only, initial
       position + velocity) describe the same motion - their readings differ by < 1e-3 and the difference does not grow when the
       interval is halved; integrating the synthesised readings from the first returned row reproduces the returned
       trajectory with an error that shrinks with the interval (measured order >= 1).
Not decided: accuracy against analytic kinematics for general smooth trajectories (a limit statement).
"""
import math
import numpy as np
from . import tlc, filt, pool, exc

INV = ["SignedUnits", "LevelFeelsReactionOnMinusZ", "EquatorLevel", "PoleLevel", "NoseUpAtEquatorHeadingNorth", "RightWingDown", "Geometry"]
ANG = {0: 0.0, 1: 90.0, 2: 180.0, 3: -90.0}
LAT = {3: -90.0, 0: 0.0, 1: 90.0}
GY = ['gyro_x', 'gyro_y', 'gyro_z']
AC = ['accel_x', 'accel_y', 'accel_z']


def rest_configs(m, chunk):
    sim, earth = m["sim"], m["pyins"].earth
    out = []
    for k, (latq, r, p, h, gy, ac) in chunk:
        lat = LAT[latq]; lon = (30.0, -120.0, 179.5)[k % 3]; alt = (0.0, 250.0, 8000.0)[k % 3]
        rph = [ANG[r], ANG[p], ANG[h]]
        dt = 0.125
        t = (0.0, 1024.0)[k % 2] + np.arange(0, 1.01, dt)
        if k % 4 >= 2:            # irregular sampling with a gap (dyadic intervals; the first interval is not the mean one): seeded change C03_3
            t = (0.0, 1024.0)[k % 2] + np.hstack([[0.0], np.cumsum([0.0625, 0.125, 0.25, 0.125, 0.1875, 0.5, 0.0625, 0.125])])
        dts = np.diff(t)[:, None]
        try:
            g = float(earth.gravity(lat, alt))
            for typ in ("rate", "increment"):
                traj, imu = sim.generate_imu(t, np.tile([lat, lon, alt], (len(t), 1)), np.tile(rph, (len(t), 1)), sensor_type=typ)
                sc = 1.0 if typ == "rate" else dts                  # an increment reading is the integral over ITS OWN sampling interval
                G = imu[GY].values[1:]; A = imu[AC].values[1:]
                if (np.abs(G - earth.RATE * sc * np.array(gy, float)) > 1e-12 * sc).any():
                    out.append((k, "at rest at lat %g with rph %s the %s gyros read %s (first interval; sampling %s), Earth rate is %s x RATE" % (lat, rph, typ, np.round(G[0] / (earth.RATE * np.ravel(sc)[0]), 6).tolist(), "irregular" if k % 4 >= 2 else "uniform", gy))); break
                if (np.abs(A - g * sc * np.array(ac, float)) > 2e-5 * sc).any():
                    out.append((k, "at rest at lat %g with rph %s the %s accelerometers read %s x g (worst interval; sampling %s), the reaction to gravity is %s x g" % (lat, rph, typ, np.round((A / (g * sc))[np.abs(A / (g * sc) - np.array(ac, float)).max(axis=1).argmax()], 6).tolist(), "irregular" if k % 4 >= 2 else "uniform", ac))); break
                if len(imu) != len(t) or list(imu.index) != list(t) or list(traj.index) != list(t):
                    out.append((k, "generate_imu returns %d / %d rows for %d time points" % (len(traj), len(imu), len(t)))); break
                if np.abs(traj[['VN', 'VE', 'VD']].values).max() > 1e-6 or np.abs(traj[['lat', 'lon', 'alt']].values - [lat, lon, alt]).max() > 1e-9:
                    out.append((k, "the trajectory returned for a body at rest is not the constant state")); break
        except Exception as e:
            if not exc.entered_pyins(e):
                raise
            out.append((k, "the library raised " + exc.describe(e)))
    return out


def _numeric_predicates(m, seed):
    pd = m["pd"]; sim, earth, T, SD = m["sim"], m["pyins"].earth, m["transform"], m["strapdown"]
    rng = np.random.RandomState((seed * 19 + 2) % (2 ** 31))
    out = []
    wg = wa = 0.0
    for _ in range(40):
        lat, lon, alt = float(rng.uniform(-85, 85)), float(rng.uniform(-180, 180)), float(rng.uniform(-300, 15000))
        rph = [float(rng.uniform(-180, 180)), float(rng.uniform(-85, 85)), float(rng.uniform(-180, 180))]
        t = np.arange(0, 2.01, 0.1)
        traj, imu = sim.generate_imu(t, np.tile([lat, lon, alt], (len(t), 1)), np.tile(rph, (len(t), 1)))
        C = T.mat_from_rph(rph)
        wg = max(wg, np.abs(imu[GY].values - C.T @ np.asarray(earth.rate_n(lat))).max())
        wa = max(wa, np.abs(imu[AC].values + C.T @ np.asarray(earth.gravity_n(lat, alt))).max())
    out.append(("at_rest_general_gyro_is_earth_rate", wg <= 1e-12, "max deviation %.3g rad/s" % wg))
    out.append(("at_rest_general_accel_is_reaction_to_gravity", wa <= 2e-5, "max deviation %.3g m/s^2" % wa))
    # the three forms describe the same motion; integration reproduces the trajectory - both with errors that shrink with the interval
    orders_forms, orders_int, worst = [], [], 0.0
    dtraj = []
    for k in range(4):
        lla0 = [float(rng.uniform(-60, 60)), float(rng.uniform(-170, 170)), float(rng.uniform(0, 3000))]
        v0 = (rng.randn(3) * [3.0, 3.0, 0.3]).tolist(); amp = (rng.rand(3) * [1.5, 1.5, 0.2]).tolist()
        span, period = 20.0, 10.0
        if k == 3:          # a fast out-and-back run that returns to its initial latitude (seeded change C03_1: the position of the third form is
            v0 = [0.0, float(rng.uniform(-5, 5)), 0.0]          # found by an iteration whose convergence such a track can fake)
            amp = [float(rng.uniform(60, 110)), 0.0, 0.0]; span = period = float(rng.choice([60.0, 120.0]))
        dform, dint = [], []
        for dt in (0.1, 0.05):
            t = np.arange(0, span + dt / 2, dt)
            vel = np.array(v0) + np.array(amp) * np.sin(2 * np.pi * t[:, None] / period)
            rph = np.zeros((len(t), 3)); rph[:, 2] = np.rad2deg(np.arctan2(vel[:, 1], vel[:, 0])); rph[:, 0] = 5 * np.sin(2 * np.pi * t / 7.0)
            trC, imuC = sim.generate_imu(t, lla0, rph, vel)                                   # initial position + velocity
            trA, imuA = sim.generate_imu(t, trC[['lat', 'lon', 'alt']].values, rph, vel)       # position + velocity
            trB, imuB = sim.generate_imu(t, trC[['lat', 'lon', 'alt']].values, rph)            # position only
            d = max(np.abs(imuA.values - imuC.values)[5:-5].max(), np.abs(imuB.values - imuC.values)[5:-5].max())
            dform.append(float(d))
            # ... and the RETURNED trajectories describe the same motion too (the position-only form derives the velocity it returns:
            # seeded change C03_4 returned +d(alt)/dt as the DOWN velocity while the readings stayed right)
            for nm, trX in (("position+velocity", trA), ("position only", trB)):
                dv_ = float(np.abs(trX[['VN', 'VE', 'VD']].values - trC[['VN', 'VE', 'VD']].values)[5:-5].max())
                dr_ = float(np.abs(trX[['roll', 'pitch', 'heading']].values - trC[['roll', 'pitch', 'heading']].values)[5:-5].max())
                dtraj.append((dv_, dr_, nm))
            inc = SD.compute_increments_from_imu(imuC, 'rate')
            it = SD.Integrator(trC.iloc[0])
            it.integrate(inc)
            e = T.compute_state_difference(it.trajectory.iloc[-1], trC.iloc[-1])
            dint.append(float(np.abs(e[['north', 'east', 'down']].values).max()))
        worst = max(worst, dform[0], )
        orders_forms.append(bool(dform[1] <= max(1.25 * dform[0], 1e-4)))   # below 1e-4 the difference is spline round-off, not interpolation error          # the readings differ at the 1e-5 level already (near the accelerometer
                                                                        # round-off floor): "shrinks" is judged as "does not grow"
        if dint[1] > 1e-6:
            orders_int.append(int(round(math.log2(dint[0] / dint[1]))))
        out.append(("case_%d" % k, True, "forms differ by %.3g / %.3g, integration misses by %.3g / %.3g m at dt = 0.1 / 0.05" % (dform[0], dform[1], dint[0], dint[1])))
    out.append(("three_forms_same_motion", all(orders_forms) and worst <= 1e-3,
                "difference does not grow beyond the round-off floor (1e-4) when the interval is halved: %s; largest reading difference %.3g at dt = 0.1" % (orders_forms, worst)))
    wv = max(x[0] for x in dtraj); wr = max(x[1] for x in dtraj)
    out.append(("three_forms_return_the_same_trajectory", wv <= 2e-3 and wr <= 1e-6,
                "largest difference of the returned velocities %.3g m/s (bound 2e-3), of the returned attitude angles %.3g deg, between the input forms" % (wv, wr)))
    out.append(("integration_reproduces_trajectory_error_shrinks", (not orders_int or min(orders_int) >= 1), "measured orders %s" % (orders_int,)))
    # increment-type readings are the integrals of the rate-type readings: a body turning at a constant rate at rest is represented by the
    # splines without interpolation error, so the only deviation is the truncation of the closed-form integral, which is of THIRD order in
    # the rotation over the interval; it is judged in units of (rotation)^2 x |f| (unchanged code: 0.003 - 0.005; a defect in the
    # second-order term of the rotation series gives 1/6 - seeded change C03_2)
    wi = 0.0
    for k in range(3):
        rate = float(rng.uniform(40, 90)); pitch = float(rng.uniform(-30, 30)); head = float(rng.uniform(-180, 180))
        pos = [float(rng.uniform(-70, 70)), float(rng.uniform(-170, 170)), float(rng.uniform(0, 3000))]
        for dt in (0.1, 0.05):
            sub = 16
            t = np.arange(0, 2.0 + dt / 2, dt); tf = np.arange(0, 2.0 + dt / (2 * sub), dt / sub)
            rphof = lambda tt: np.column_stack([rate * tt, np.full(len(tt), pitch), np.full(len(tt), head)])
            _, inc = sim.generate_imu(t, np.tile(pos, (len(t), 1)), rphof(t), sensor_type='increment')
            _, rt = sim.generate_imu(tf, np.tile(pos, (len(tf), 1)), rphof(tf), sensor_type='rate')
            a = rt[AC].values
            w = np.ones(sub + 1); w[1:-1:2] = 4; w[2:-1:2] = 2; w *= dt / sub / 3          # composite Simpson over each sampling interval
            integ = np.array([(w[:, None] * a[j * sub:(j + 1) * sub + 1]).sum(axis=0) for j in range(len(t) - 1)])
            dev = float(np.abs(inc[AC].values[1:] - integ)[2:-2].max() / dt)
            wi = max(wi, dev / ((math.radians(rate) * dt) ** 2 * 9.8))
    out.append(("increments_are_integrals_of_rate_readings", wi <= 0.03, "largest deviation %.3g in units of (rotation per interval)^2 x g for constant-rate turns of 40 - 90 deg/s" % wi))
    return out


def check(rep, pid, tier, seed):
    rep.assumptions += [
        "decided exactly: the at-rest sentence at cardinal latitudes and cube-group attitudes (signed unit vectors x RATE / gravity; accelerometers to 2e-5 m/s^2, "
        "which is the round-off of the spline's second derivative of a 6.4e6 m position)",
        "the other sentences are judged by measured orders (the error shrinks with the sampling interval: a rounded exponent, >= 1) computed by the harness - labelled, not TLC-decided; "
        "accuracy against analytic kinematics for general smooth trajectories is NOT decided",
    ]
    r = tlc.run_tlc("AtRest", dict(spec="Spec", invariants=INV), workers=4, timeout=900, heap="2g", coverage=True)
    rep.add_tlc("AtRest[3 cardinal latitudes x 64 attitudes]", r)
    if not r.ok:
        rep.machinery("leg M: AtRest violates %s: %s" % (r.violated, r.trace[-1][1] if r.trace else "?"))
    rep.exhaustive = r.ok
    cfgs = []
    for line in r.prints:
        v = tlc.parse_value(line)
        if isinstance(v, tuple) and v and v[0] == "REST":
            cfgs.append((v[1], v[2], v[3], v[4], list(v[5]), list(v[6])))
    if len(cfgs) != 192:
        rep.machinery("AtRest printed %d configurations, expected 192" % len(cfgs))
    items = list(enumerate(cfgs))
    chunks = [items[i::16] for i in range(16)]
    for k, status, out in pool.run_tasks(lambda m, ch: rest_configs(m, ch), chunks, init=filt._imports, task_timeout=600):
        if status != "done":
            rep.machinery("leg R: worker %s: %s" % (status, out)); continue
        for kk, p in out:
            rep.violation("C03 %s" % p, dict(mode="rest", cfg=list(cfgs[kk]), k=kk), key=p[:40])
    preds = numeric_predicates(filt._imports(), seed)
    rounds = [(seed, preds)] + ([(seed + 1000 * k, numeric_predicates(filt._imports(), seed + 1000 * k)) for k in range(1, 9)] if tier == "thorough" else [])
    for sd_, pr_ in rounds:
        for name, holds, detail in pr_:
            if not holds:
                rep.violation("C03 numeric predicate %s does not hold: %s" % (name, detail), dict(mode="numeric", name=name, seed=sd_), key=name)
    rep.extra["numeric_predicate_rounds"] = len(rounds)
    rep.extra["numeric_predicates"] = [dict(name=n, holds=bool(h), detail=d) for n, h, d in preds]
    rep.traces += len(cfgs) + 47
    rep.evaluations += len(cfgs) + len(preds)
    for c in cfgs:
        rep.nontrivial.add(tuple(c[:4]))
    rep.rule = "one configuration = (cardinal latitude, roll, pitch, heading quarter turns), both sensor types; plus 40 general at-rest states, 4 motions (one a closed out-and-back run) and 3 constant-rate turns at two sampling intervals"
    rep.sample("equator, level, heading east: gyros read (0, -RATE, 0), accelerometers (0, 0, -g)")


def replay(rep, pid, case):
    m = filt._imports()
    if case.get("mode") == "rest":
        c = case["cfg"]
        for _, p in rest_configs(m, [(case["k"], tuple(c))]):
            rep.violation("C03 replay: %s" % p, case)
    else:
        for name, holds, detail in numeric_predicates(m, case["seed"]):
            if not holds and name == case.get("name"):
                rep.violation("C03 replay: numeric predicate %s: %s" % (name, detail), case)


def numeric_predicates(m, seed):
    """An exception raised by the library while a predicate is evaluated is an observation (a failing predicate); one that never
    entered pyins is a defect of the harness."""
    try:
        return _numeric_predicates(m, seed)
    except Exception as e:
        if not exc.entered_pyins(e):
            raise
        return [("library_raised", False, exc.describe(e))]
