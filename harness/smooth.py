"""Extended coverage (not a clause of a listed property): the index algebra of transform.smooth_state against Smooth.tla.

Leg M  Smooth.tla: every set of original stamps on a lattice in 0..MaxT x filter half-width k - the five statements of smooth_state as
       actions over (stamp, support) rows; invariants OutputStamps (a row for exactly the stamps whose centred window lies inside the
       uniform grid), Centred (tap j multiplies the sample k - j steps after the stamp: no delay), NoEdgeEffect (no value saw the zero
       padding of lfilter), Increasing; the variants "only the group delay dropped" and "index not shifted" must be rejected.
Leg R  every printed configuration on the real smooth_state with dyadic time steps and origins (so that the float grid is exact): the
       returned index equals the printed stamps, the columns keep their order, and every value equals the printed support evaluated with
       the real FIR taps (scipy.signal.firwin - assumed symmetric with unit sum, which is checked) on the linearly interpolated data
       (numpy.interp, not the library's interpolator); a linear-in-time column is reproduced exactly (no delay); constant attitude
       stays constant.
A disagreement is reported as MODEL-DRIFT (exit 0): no listed property states what smoothing returns.
"""
import numpy as np
from . import tlc, exc

INV = ["OutputStamps", "Centred", "NoEdgeEffect", "Increasing"]


def model(rep, tier):
    maxt = 10 if tier == "quick" else 12
    ks = {3, 4} if tier == "quick" else {3, 4, 5}
    r = tlc.run_tlc("Smooth", dict(spec="Spec", invariants=INV, constants=dict(MaxT=maxt, Ks=ks, DropAll=True, Shifted=True)), workers=4, timeout=1800, heap="2g", coverage=True)
    rep.add_tlc("Smooth (extended coverage)", r)
    if not r.ok:
        rep.machinery("leg M: Smooth violates %s" % r.violated)
        return []
    for variant, consts in (("DropAll = FALSE", dict(DropAll=False, Shifted=True)), ("Shifted = FALSE", dict(DropAll=True, Shifted=False))):
        c = dict(MaxT=8, Ks={3}); c.update(consts)
        v = tlc.run_tlc("Smooth", dict(spec="Spec", invariants=INV, constants=c), workers=2, timeout=600, heap="1g")
        rep.add_tlc("Smooth[%s] (sensitivity)" % variant, v, note="must violate an invariant")
        if v.violated:
            rep.extra.setdefault("spec_sensitivity", []).append(dict(variant="Smooth: " + variant, violated=v.violated))
        else:
            rep.vacuity.append("the variant %s of Smooth was not rejected" % variant)
    cfgs = []
    for line in r.prints:
        v = tlc.parse_value(line)
        if isinstance(v, tuple) and v and v[0] == "SMOOTH":
            _, T, k, dt, rows, first = v
            cfgs.append(dict(T=sorted(T), k=int(k), dt=int(dt), rows=list(rows), first=list(first)))
    cfgs.sort(key=lambda c: (c["k"], c["T"]))
    return cfgs


def replay_chunk(m, chunk):
    from scipy import signal
    pd = m["pd"]; T = m["transform"]
    out = []
    for n, cfg in chunk:
        unit = (0.125, 0.5, 0.015625)[n % 3]; t0 = (0.0, 64.0, -8.0)[n % 3]
        stamps = t0 + unit * np.array(cfg["T"], float)
        k, dtl = cfg["k"], cfg["dt"]
        rng = np.random.RandomState(n)
        with_rph = n % 2 == 0
        cols = ['VE', 'lat', 'alt'] + (['roll', 'pitch', 'heading'] if with_rph else []) + ['VN']
        data = {'VE': rng.randn(len(stamps)), 'lat': 3.0 + 0.25 * (stamps - t0), 'alt': rng.randn(len(stamps)) * 10, 'VN': np.cumsum(rng.randn(len(stamps)))}
        if with_rph:
            data.update(roll=np.full(len(stamps), 10.0), pitch=np.full(len(stamps), -20.0), heading=np.full(len(stamps), 135.0))
        state = pd.DataFrame({c: data[c] for c in cols}, index=pd.Index(stamps, name="time"))
        before = state.copy()
        try:
            res = T.smooth_state(state, k * dtl * unit)
        except Exception as e:
            if not exc.entered_pyins(e):
                raise
            # a table too short for two full windows: resampling back needs two smoothed rows to interpolate between, and raising
            # is as good an answer as an empty or one-row table - not judged
            if int(np.ceil(cfg["T"][-1] / dtl)) - 2 * k >= 2:
                out.append((n, "smooth_state raised %s for stamps %s (unit %g), k = %d" % (exc.describe(e), cfg["T"], unit, k)))
            continue
        p = None
        want = t0 + unit * np.array(cfg["rows"], float)
        if not state.equals(before):
            p = "smooth_state modified its argument"
        elif list(res.columns) != cols:
            p = "columns %s, the input had %s" % (list(res.columns), cols)
        elif len(res) != len(want) or np.any(np.asarray(res.index, float) != want):
            p = "rows at %s, the model has %s (stamps %s, k = %d: the stamps whose centred window lies inside the uniform grid)" % (
                ((np.asarray(res.index, float) - t0) / unit).tolist(), cfg["rows"], cfg["T"], k)
        elif len(want):
            h = signal.firwin(2 * k + 1, 1.0 / (k * dtl * unit), fs=1.0 / (dtl * unit))
            if abs(h.sum() - 1) > 1e-12 or np.abs(h - h[::-1]).max() > 1e-15:
                raise RuntimeError("firwin taps are not symmetric with unit sum")
            grid = t0 + unit * dtl * np.arange(int(np.ceil(cfg["T"][-1] / dtl)))
            for c in ('VE', 'alt', 'VN', 'lat'):
                xi = np.interp(grid, stamps, state[c].values)
                # support of row i: grid rows first[i] .. first[i] + 2k (1-based), tap j on row first + 2k - j
                exp = np.array([sum(h[j] * xi[f - 1 + 2 * k - j] for j in range(2 * k + 1)) for f in cfg["first"]])
                if np.abs(res[c].values - exp).max() > 1e-9 * (1 + np.abs(exp).max()):
                    i = int(np.abs(res[c].values - exp).argmax())
                    p = "column %s at stamp %g is %.12g, the centred tap-weighted mean of the interpolated data is %.12g (stamps %s, k = %d)" % (c, cfg["rows"][i], res[c].values[i], exp[i], cfg["T"], k)
                    break
            if p is None and np.abs(res['lat'].values - (3.0 + 0.25 * (want - t0))).max() > 1e-9:
                p = "a column that is linear in time is not reproduced (delayed output)"
            if p is None and with_rph and np.abs(res[['roll', 'pitch', 'heading']].values - [10.0, -20.0, 135.0]).max() > 1e-6:
                p = "a constant attitude is not reproduced: %s" % res[['roll', 'pitch', 'heading']].values[0].tolist()
        if p:
            out.append((n, "smooth_state: " + p))
    return out
