from .check_integrator import check, replay   # noqa: F401
