"""Evidence files (/verif/evidence/<id>.json, schema /root/.vp/EVIDENCE.schema.json) and the check verdict."""
import json, os, time

ROOT = os.path.dirname(os.path.dirname(os.path.abspath(__file__)))
EVID = os.environ.get("VERIF_EVIDENCE_DIR") or os.path.join(ROOT, "evidence")     # the self-tests redirect it
REPLAY = os.path.join(EVID, "replay")


class Report:
    """Collects what one run of one check covered; writes the evidence file; yields the exit code."""

    def __init__(self, pid, tier, seed):
        self.pid, self.tier, self.seed = pid, tier, int(seed)
        self.t0 = time.time()
        self.states = 0
        self.transitions = 0
        self.traces = 0            # behaviours replayed into / traces recorded from the real code
        self.evaluations = 0
        self.nontrivial = set()    # keys of distinct non-trivial cases
        self.rule = ""
        self.samples = []
        self.tlc_runs = []
        self.violations = []       # dicts with 'what' and 'replay'
        self.known = []            # strings
        self.drift = []            # strings
        self.vacuity = []          # strings
        self.assumptions = []
        self.extra = {}
        self.exhaustive = False
        self.machinery_errors = []

    # --- collecting
    def add_tlc(self, name, r, note=""):
        self.states += r.states
        self.transitions += r.transitions if r.transitions else r.generated
        d = dict(model=name, **r.summary())
        if note:
            d["note"] = note
        d["cmd"] = r.cmd
        self.tlc_runs.append(d)

    def sample(self, s, limit=6):
        if len(self.samples) < limit:
            self.samples.append(s)

    def violation(self, what, replay_obj, key=None):
        """One VIOLATION line per distinct violation: at most 3 per `key` (default: the text), 15 in total; the rest are counted."""
        key = key or what[:80]
        self._vkeys = getattr(self, "_vkeys", {})
        self._vkeys[key] = self._vkeys.get(key, 0) + 1
        if self._vkeys[key] > 3 or len(self.violations) >= 15:
            self.extra["violations_not_listed"] = self.extra.get("violations_not_listed", 0) + 1
            return
        os.makedirs(REPLAY, exist_ok=True)
        n = len(self.violations) + 1
        path = os.path.join(REPLAY, "%s-%d.json" % (self.pid, n))
        with open(path, "w") as f:
            json.dump(dict(property=self.pid, what=what, seed=self.seed, tier=self.tier, case=replay_obj),
                      f, indent=1, default=str)
        self.violations.append(dict(what=what, replay=path))
        print("VIOLATION property=%s replay=%s" % (self.pid, path), flush=True)
        print("  detail: %s" % what[:500], flush=True)

    def known_finding(self, text):
        if text not in self.known:
            self.known.append(text)
            print("KNOWN-FINDING: property=%s %s" % (self.pid, text), flush=True)

    def model_drift(self, text):
        if text not in self.drift:
            self.drift.append(text)
            if len(self.drift) <= 10:
                print("MODEL-DRIFT property=%s %s" % (self.pid, text), flush=True)

    def machinery(self, text):
        self.machinery_errors.append(text)
        print("MACHINERY-ERROR property=%s %s" % (self.pid, text[:2000]), flush=True)

    # --- writing
    def finish(self, write=True):
        cov = dict(
            states=int(self.states), transitions=int(self.transitions),
            traces_validated_against_impl=int(self.traces),
            evaluations=int(self.evaluations), distinct_nontrivial=len(self.nontrivial),
            rule=self.rule, samples=self.samples or ["(no sample recorded)"],
            exhaustive=bool(self.exhaustive), tlc_runs=self.tlc_runs,
            known_findings=self.known, model_drift=self.drift[:50], vacuity=self.vacuity,
        )
        cov.update(self.extra)
        ev = dict(property_id=self.pid, tier=self.tier, seed=self.seed, level="model_checking", coverage=cov,
                  assumptions=self.assumptions, wall_s=round(time.time() - self.t0, 2),
                  violations=len(self.violations))
        if self.machinery_errors:
            ev["coverage"]["machinery_errors"] = self.machinery_errors[:20]
        if write:
            os.makedirs(EVID, exist_ok=True)
            with open(os.path.join(EVID, self.pid + ".json"), "w") as f:
                json.dump(ev, f, indent=1, default=str)
        if self.violations:
            return 1
        if self.machinery_errors:
            return 2
        print("OK property=%s tier=%s states=%d transitions=%d impl_traces=%d evaluations=%d known=%d drift=%d wall=%.1fs"
              % (self.pid, self.tier, self.states, self.transitions, self.traces, self.evaluations,
                 len(self.known), len(self.drift), time.time() - self.t0), flush=True)
        return 0
