"""C05: error-state coordinates, correction and output transforms agree - decided on an exact domain.

Leg M  ErrorTransform.tla over (altitude mode x 16 cube-group attitudes with pitch 0 x integer velocities): the code-shaped
       transform_to_output equals the first-order change of the state under the library's own correction read in output coordinates,
       with the Euler-angle Jacobian DERIVED from the differentials of atan2 / asin of the rotation-matrix entries (OutputIsDerivative);
       JOrthogonal; LeftInverse (both modes); Rows2DZero; Dims.  VelSkewFlip = TRUE must be rejected.
Leg R  every configuration is built with the real InsErrorModel: transform_to_output / transform_to_internal == the model's matrices
       (attitude rows x RAD_TO_DEG, attitude columns of the inverse x DEG_TO_RAD: the units clause); the real product is the identity;
       the derivative of the real correct_pva read through the real compute_state_difference == transform_to_output (central difference,
       integer entries after removing the unit factor: a rounding, not a tuned tolerance); perturb_pva with an output-space error followed
       by correct_pva with the corresponding internal vector restores the state to SECOND order (the order is measured from three scales
       and rounded: a discrete observable); in 2D a correction leaves altitude and VD bit-identical and the down / VD rows are exactly 0;
       the Trajectory (stacked) form equals the per-row form.
"""
import json, math
from concurrent.futures import ThreadPoolExecutor
import numpy as np
from . import tlc, filt, pool, exc
from .check_c06 import domain_module, ANGLE, LLA, VEL, RPH

INV = ["OutputIsDerivative", "JOrthogonal", "LeftInverse", "Rows2DZero", "Dims"]
R2D = 180.0 / math.pi
OUT = ['north', 'east', 'down', 'VN', 'VE', 'VD', 'roll', 'pitch', 'heading']


def _pva(m, cfg, perm=False):
    pd = m["pd"]
    k = cfg["k"]
    # (the property's domain reaches |lat| = 85)
    vals = dict(lat=(50.0, -33.0, 0.0, 71.5, 84.9, -85.0)[k % 6], lon=(30.0, -120.0, 179.99995, -179.99995)[k % 4], alt=(100.0, -50.0, 9000.0)[k % 3],   # within 4 m of the +-180 meridian on either side: a correction of tens of metres crosses it (seeded change C05_6)
               
                VN=float(cfg["vel"][0]), VE=float(cfg["vel"][1]), VD=float(cfg["vel"][2]),
                roll=ANGLE[cfg["rq"]], pitch=0.0, heading=ANGLE[cfg["hq"]])
    labels = LLA + VEL + RPH
    if perm:
        labels = RPH + LLA + VEL[::-1]
    return pd.Series([vals[c] for c in labels], index=labels, name=float(k % 5))


def _diff(m, a, b):
    d = m["transform"].compute_state_difference(a, b)
    return np.asarray(d[OUT].values, float)


def _one(m, cfg):
    pd = m["pd"]; EMod = m["error_model"]; sim = m["sim"]
    probs = []
    alt = cfg["alt"]
    n = 9 if alt else 7
    em = EMod.InsErrorModel(alt)
    pva = _pva(m, cfg, perm=(cfg["k"] % 4 == 1))
    To_s = np.array(cfg["To"], float); Ti_s = np.array(cfg["Ti"], float)
    To_s[6:9] *= R2D
    Ti_s[:, 6:9] /= R2D
    before = pva.copy()
    To = np.asarray(em.transform_to_output(pva), float)
    Ti = np.asarray(em.transform_to_internal(pva), float)
    if To.shape != (9, n) or Ti.shape != (n, 9):
        return ["shapes: transform_to_output %s, transform_to_internal %s (expected (9, %d), (%d, 9))" % (To.shape, Ti.shape, n, n)]
    if not np.allclose(To, To_s, rtol=1e-12, atol=1e-9):
        d = np.abs(To - To_s); i = np.unravel_index(d.argmax(), d.shape)
        probs.append("transform_to_output differs from the model at (%s, state %d): %r vs %r" % (OUT[i[0]], i[1], To[i], To_s[i]))
    if not np.allclose(Ti, Ti_s, rtol=1e-12, atol=1e-9):
        d = np.abs(Ti - Ti_s); i = np.unravel_index(d.argmax(), d.shape)
        probs.append("transform_to_internal differs from the model at (state %d, %s): %r vs %r" % (i[0], OUT[i[1]], Ti[i], Ti_s[i]))
    if not np.allclose(Ti @ To, np.eye(n), rtol=0, atol=1e-9):
        probs.append("transform_to_internal @ transform_to_output is not the identity (max deviation %.3g)" % np.abs(Ti @ To - np.eye(n)).max())
    if not alt and (np.any(To[2]) or np.any(To[5])):
        probs.append("2D: the down / VD rows of transform_to_output are not identically zero")
    if not pva.equals(before):
        probs.append("a transform modified the pva it was given")
    # the derivative of the real correction, read through the real state difference
    h = np.array([1.0, 1.0, 1.0, 2.0 ** -10, 2.0 ** -10, 2.0 ** -10, 2.0 ** -12, 2.0 ** -12, 2.0 ** -12])
    if not alt:
        h = h[[0, 1, 3, 4, 6, 7, 8]]
    D = np.zeros((9, n))
    for j in range(n):
        x = np.zeros(n); x[j] = h[j]
        plus = em.correct_pva(pva, x)
        minus = em.correct_pva(pva, -x)
        D[:, j] = (_diff(m, pva, plus) - _diff(m, pva, minus)) / (2 * h[j])
        if not alt:
            for q in (plus, minus):
                if not (np.float64(q['alt']).tobytes() == np.float64(pva['alt']).tobytes() and np.float64(q['VD']).tobytes() == np.float64(pva['VD']).tobytes()):
                    probs.append("2D: a correction changed altitude or vertical velocity")
                    break
        if list(plus.index) != list(pva.index):
            probs.append("correct_pva returned labels %s for a pva labelled %s" % (list(plus.index), list(pva.index)))
    Dn = D.copy(); Dn[6:9] /= R2D
    Ts = np.array(cfg["To"], float)
    if np.abs(Dn - np.round(Dn)).max() > 1e-4:
        probs.append("the derivative of correct_pva in output coordinates is not integral on the exact domain (max fraction %.3g): units?" % np.abs(Dn - np.round(Dn)).max())
    elif not np.array_equal(np.round(Dn), Ts):
        d = np.abs(np.round(Dn) - Ts); i = np.unravel_index(d.argmax(), d.shape)
        probs.append("applying x as a correction does not change the state by transform_to_output @ x: at (%s, state %d) the state changes by %s per unit, the transform says %s"
                     % (OUT[i[0]], i[1], np.round(Dn)[i], Ts[i]))
    # perturb with an output-space error, correct with the corresponding internal vector: restored to second order
    e0 = np.array([100.0, -100.0, 50.0, 1.0, -1.0, 0.5, 1.0, -0.5, 0.75]) * (1 if cfg["k"] % 2 else -1)
    if not alt:
        e0[[2, 5]] = 0.0
    rs = []
    for s in (2.0 ** -5, 2.0 ** -6, 2.0 ** -7):
        e = pd.Series(e0 * s, index=OUT)
        p = sim.perturb_pva(pva[LLA + VEL + RPH], e)
        q = em.correct_pva(p, Ti @ e.values)
        rs.append(np.abs(_diff(m, q, pva[LLA + VEL + RPH])))
    rs = np.array(rs)
    floor = np.array([1e-6] * 3 + [1e-8] * 6)          # only residuals far above round-off are judged
    speed = float(np.linalg.norm(cfg["vel"]))
    small = 1e-3 * np.abs(e0) * 2.0 ** -5 * (1.0 + speed / 10.0) + floor      # second-order terms grow with |v| e_att^2
    if not alt and cfg["vel"][2] != 0:
        pass            # the no-altitude mode is about states with zero vertical velocity: the restore clause is not judged for the others
    elif (rs[0] > small).any():
        i = int(np.argmax(rs[0] / small))
        probs.append("perturb_pva then correct_pva does not restore the state: residual %.3g in %s for an error of %.3g" % (rs[0][i], OUT[i], abs(e0[i]) * 2.0 ** -5))
    else:
        for i in range(9):
            if rs[2][i] > floor[i]:
                order = int(round(math.log2(rs[0][i] / rs[2][i]) / 2.0))
                if order < 2:
                    probs.append("perturb_pva then correct_pva restores %s only to order %d in the error size (residuals %.3g, %.3g, %.3g at scales 1, 1/2, 1/4)"
                                 % (OUT[i], order, rs[0][i], rs[1][i], rs[2][i]))
    # stacked form
    if cfg["k"] % 3 == 0:
        other = pva.copy(); other['heading'] = ANGLE[(cfg["hq"] + 1) % 4]; other['VN'] += 2.0
        traj = pd.DataFrame([pva.values, other.values], index=pd.Index([0.0, 1.0], name="time"), columns=list(pva.index))
        St = np.asarray(em.transform_to_output(traj), float)
        if St.shape != (2, 9, n) or not np.array_equal(St[0], To) or not np.array_equal(St[1], np.asarray(em.transform_to_output(other), float)):
            probs.append("transform_to_output(Trajectory) is not the stack of the per-row transforms")
    return probs


def general_predicates(m, seed, n):
    """Numeric predicates on seeded GENERAL states (pitch within +-80 deg, real-valued velocity), computed by the harness and labelled
    as such: left inverse, transform_to_output against the central difference of the real correct_pva read through the real state
    difference (1e-5 relative), the measured restore order, the 2D clauses.  They reach the terms that vanish at pitch 0."""
    pd = m["pd"]; EMod = m["error_model"]; sim = m["sim"]
    rng = np.random.RandomState((seed * 11 + 5) % (2 ** 31))
    probs = []
    worst = 0.0
    nine = LLA + VEL + RPH
    for k in range(n):
        alt = bool(k % 2)
        em = EMod.InsErrorModel(alt)
        nn = 9 if alt else 7
        vals = [float(rng.uniform(-85, 85)) if k % 4 else float(rng.choice([84.9, -84.9, 85.0, -85.0, 84.3])), float(rng.uniform(-179, 179)),
                float(rng.uniform(-100, 5000))] + ((5.0 if k % 5 else 120.0) * rng.randn(3)).tolist() + \
               [float(rng.uniform(-180, 180)), float(rng.uniform(-80, 80)), float(rng.uniform(-180, 180))]
        if not alt:
            vals[5] = 0.0            # the no-altitude mode is about states with zero vertical velocity
        pva = pd.Series(vals, index=nine, name=0.0)
        tag = "with_altitude=%s rph=%s v=%s" % (alt, np.round(vals[6:], 2).tolist(), np.round(vals[3:6], 2).tolist())
        try:
            To = np.asarray(em.transform_to_output(pva), float); Ti = np.asarray(em.transform_to_internal(pva), float)
            if np.abs(Ti @ To - np.eye(nn)).max() > 1e-8:
                probs.append("general: transform_to_internal @ transform_to_output is not the identity (%.3g; %s)" % (np.abs(Ti @ To - np.eye(nn)).max(), tag)); continue
            h = np.array([1.0, 1.0, 1.0, 2.0 ** -10, 2.0 ** -10, 2.0 ** -10, 2.0 ** -12, 2.0 ** -12, 2.0 ** -12])
            if not alt:
                h = h[[0, 1, 3, 4, 6, 7, 8]]
            D = np.zeros((9, nn))
            frozen = True
            for j in range(nn):
                x = np.zeros(nn); x[j] = h[j]
                plus, minus = em.correct_pva(pva, x), em.correct_pva(pva, -x)
                D[:, j] = (_diff(m, pva, plus) - _diff(m, pva, minus)) / (2 * h[j])
                if not alt:
                    frozen = frozen and all(np.float64(q[c]).tobytes() == np.float64(pva[c]).tobytes() for q in (plus, minus) for c in ('alt', 'VD'))
            if not frozen:
                probs.append("general 2D: a correction changed altitude or vertical velocity (%s)" % tag); continue
            if not alt and (np.any(To[2]) or np.any(To[5])):
                probs.append("general 2D: the down / VD rows of transform_to_output are not identically zero (%s)" % tag); continue
            dev = float(np.abs(D - To).max() / max(1.0, np.abs(To).max()))
            worst = max(worst, dev)
            if dev > 1e-5:
                i = np.unravel_index(np.abs(D - To).argmax(), To.shape)
                probs.append("general: applying x as a correction does not change the state by transform_to_output @ x: at (%s, state %d) the transform says %.6g, the state "
                             "changes by %.6g per unit (%s)" % (OUT[i[0]], i[1], To[i], D[i], tag)); continue
            if k % 3 == 0:          # the Trajectory (stacked) form on real-valued states
                other = pva.copy(); other[['VN', 'VE', 'roll', 'heading']] = [float(x) for x in (2.7 * rng.randn(2)).tolist() + rng.uniform(-170, 170, 2).tolist()]
                traj = pd.DataFrame([pva.values, other.values], index=pd.Index([0.0, 1.0], name="time"), columns=nine)
                St = np.asarray(em.transform_to_output(traj), float)
                if St.shape != (2, 9, nn) or not (np.allclose(St[0], To, rtol=1e-13, atol=1e-13) and
                                                  np.allclose(St[1], np.asarray(em.transform_to_output(other), float), rtol=1e-13, atol=1e-13)):
                    probs.append("general: transform_to_output(Trajectory) is not the stack of the per-row transforms (max deviation %.3g; %s)" % (
                        float(np.abs(St[0] - To).max()) if St.shape == (2, 9, nn) else float('nan'), tag)); continue
            e0 = np.array([100.0, -100.0, 50.0, 1.0, -1.0, 0.5, 1.0, -0.5, 0.75])
            if not alt:
                e0[[2, 5]] = 0.0
            rs = []
            for sc in (2.0 ** -5, 2.0 ** -7):
                e = pd.Series(e0 * sc, index=OUT)
                q = em.correct_pva(sim.perturb_pva(pva, e), Ti @ e.values)
                rs.append(np.abs(_diff(m, q, pva)))
            floor = np.array([1e-6] * 3 + [1e-8] * 6)       # only residuals far above round-off are judged
            for i in range(9):
                if rs[1][i] > floor[i] and int(round(math.log2(rs[0][i] / rs[1][i]) / 2.0)) < 2:
                    probs.append("general: perturb_pva then correct_pva restores %s only to first order (residuals %.3g, %.3g at scales 1, 1/4; %s)" % (OUT[i], rs[0][i], rs[1][i], tag))
                    break
        except Exception as e:
            if not exc.entered_pyins(e):
                raise
            probs.append("general: %s: the library raised %s" % (tag, exc.describe(e)))
    return probs, worst


def replay_configs(m, chunk):
    out = []
    for cfg in chunk:
        try:
            probs = _one(m, cfg)
        except Exception as e:
            if not exc.entered_pyins(e):
                raise                        # a defect of the harness: machinery error, never a violation
            probs = ["the library raised " + exc.describe(e)]
        if probs:
            out.append((cfg, probs))
    return out


def check(rep, pid, tier, seed):
    rep.assumptions += [
        "exact domain: roll and heading multiples of 90 deg with pitch 0, integer velocities; the Euler-angle Jacobian at non-zero pitch and the behaviour "
        "near the pitch singularity are numeric and not decided",
        "general states (pitch within +-80 deg) are judged by numeric predicates computed by the harness (difference quotients at 1e-5 relative, measured restore order) - "
        "labelled `numeric_predicates` in the evidence, not TLC-decided",
        "the order of the restore residual is measured from scales 2^-5, 2^-6, 2^-7 of a fixed output-space error (100 m, 1 m/s, 1 deg) and rounded; components whose "
        "residual is below the representation floor (1e-7 m, 1e-11) are not judged",
    ]
    dom = domain_module(tier, seed, fast=True)

    def one(a):
        return tlc.run_tlc("ErrorTransform", dict(spec="Spec", invariants=INV, constants=dict(RollQ={0, 1, 2, 3}, HeadQ={2 * a, 2 * a + 1}, VelSkewFlip=False)),
                           workers=2, timeout=1800, heap="2g", coverage=True, extra_files={"MeasDomain.tla": dom})
    with ThreadPoolExecutor(2) as ex:
        results = list(ex.map(one, (0, 1)))
    cfgs = []
    ok = True
    for a, r in zip((0, 1), results):
        rep.add_tlc("ErrorTransform[headings %s]" % ("0/90" if a == 0 else "180/-90"), r)
        if not r.ok:
            ok = False
            rep.machinery("leg M: ErrorTransform violates %s: %s" % (r.violated, r.trace[-1][1] if r.trace else "?"))
        for line in r.prints:
            v = tlc.parse_value(line)
            if isinstance(v, tuple) and v and v[0] == "XFORM":
                _, alt, rq, hq, vel, To, Ti = v
                cfgs.append(dict(alt=bool(alt), rq=rq, hq=hq, vel=list(vel), To=[list(r_) for r_ in To], Ti=[list(r_) for r_ in Ti]))
    rep.exhaustive = ok
    r = tlc.run_tlc("ErrorTransform", dict(spec="Spec", invariants=["OutputIsDerivative"], constants=dict(RollQ={0, 1}, HeadQ={0, 1}, VelSkewFlip=True)),
                    workers=2, timeout=900, heap="2g", extra_files={"MeasDomain.tla": dom})
    rep.add_tlc("ErrorTransform[VelSkewFlip = TRUE] (sensitivity)", r, note="must violate OutputIsDerivative")
    if r.violated == "OutputIsDerivative":
        rep.extra["spec_sensitivity"] = dict(variant="VelSkewFlip = TRUE", violated=r.violated, counterexample=tlc.to_jsonable(r.trace[-1][1] if r.trace else {}))
    else:
        rep.vacuity.append("the sign-slip variant of the model (VelSkewFlip = TRUE) was not rejected")
    for k, c in enumerate(cfgs):
        c["k"] = k
    if not cfgs:
        rep.machinery("ErrorTransform printed no configuration")
        return
    chunks = [cfgs[i::32] for i in range(32)]
    n_bad = 0
    for k, status, out in pool.run_tasks(lambda m, c: replay_configs(m, c), chunks, init=filt._imports, task_timeout=900):
        if status != "done":
            rep.machinery("leg R: worker %s on a chunk of configurations: %s" % (status, out))
            continue
        for cfg, probs in out:
            n_bad += 1
            for p in probs:
                rep.violation("C05 InsErrorModel(with_altitude=%s) at roll %g, heading %g, velocity %s: %s" % (cfg["alt"], ANGLE[cfg["rq"]], ANGLE[cfg["hq"]], cfg["vel"], p),
                              dict(mode="config", cfg=cfg), key=p[:40])
    ng = 100 if tier == "quick" else 3000
    gp, worst = general_predicates(filt._imports(), seed, ng)
    for p in gp:
        rep.violation("C05 numeric predicate, %s" % p, dict(mode="general", seed=seed, n=ng), key=p[:50])
    rep.extra["numeric_predicates"] = dict(general_states=ng, disagreements=len(gp), worst_relative_deviation_from_the_difference_quotient=worst,
                                           note="computed by the harness (central differences, 1e-5), not TLC-decided")
    rep.traces += len(cfgs) + ng
    rep.evaluations += len(cfgs) + ng
    for c in cfgs:
        rep.nontrivial.add((c["alt"], c["rq"], c["hq"], tuple(c["vel"])))
    rep.rule = "one configuration = (altitude mode, roll, heading, velocity); each is compared in both transforms, their product, the derivative of the real correction, the restore order, the 2D clauses"
    rep.sample("3D roll 0 heading 90 v = (3,-2,1): transform_to_output = [[I,0,0],[0,I,skew(v)],[0,0,J]] with J = RAD_TO_DEG [[0,-1,0],[1,0,0],[0,0,-1]]")
    rep.extra["configurations"] = len(cfgs)
    rep.extra["configurations_with_disagreement"] = n_bad


def replay(rep, pid, case):
    m = filt._imports()
    if case.get("mode") == "general":
        for p in general_predicates(m, case["seed"], case["n"])[0]:
            rep.violation("C05 replay: %s" % p, case)
        return
    for cfg, probs in replay_configs(m, [case["cfg"]]):
        for p in probs:
            rep.violation("C05 replay: %s" % p, case)
