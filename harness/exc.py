"""Whose exception is it?  An exception raised while the real pyins code was running (a pyins frame is on the traceback) is an
observation about the code under test; an exception that never entered pyins is a defect of the harness and must never be
reported as a violation (it is a machinery error, exit 2)."""
import os, traceback


class LibraryRaised(Exception):
    """Raised by the harness around a direct call of a compiled (numba) pyins function, whose own frames do not appear on a traceback."""


def entered_pyins(exc):
    if isinstance(exc, LibraryRaised):
        return True
    repo = os.path.abspath(os.environ.get("VERIF_REPO", "/repo"))
    tb = exc.__traceback__
    for fr in traceback.extract_tb(tb):
        f = os.path.abspath(fr.filename)
        if f.startswith(os.path.join(repo, "pyins") + os.sep):
            return True
    return False


def describe(exc):
    return "%s: %s | %s" % (type(exc).__name__, str(exc)[:200], traceback.format_exception(type(exc), exc, exc.__traceback__)[-3:])
