"""Driving the real pyins.strapdown.Integrator along behaviours of Integrator.tla and comparing, after every
action, the projection of the real state with the specification's state (legs R and T of C02 / C13).

A2 interning: a row is compared through its bit pattern (nine float64 values + the time label).
A3 symbolic terms: Interp(term) is computed by the property's own oracle - a FRESH integrator with the default
capacity constructed from the term's base state, ONE integrate() call with the term's increments."""
import numpy as np
from . import filt

COLS = ['lat', 'lon', 'alt', 'VN', 'VE', 'VD', 'roll', 'pitch', 'heading']


def row_key(values, label):
    return np.asarray(values, dtype=np.float64).tobytes() + np.float64(label).tobytes()


class Episode:
    def __init__(self, m, N, cap0, with_alt, seed, perm_labels=False):
        self.m = m
        pd = m["pd"]
        self.pd = pd
        self.N, self.cap0, self.alt = N, cap0, with_alt
        rng = np.random.RandomState(seed % (2 ** 31))
        self.rng = rng
        t0 = float(rng.choice([0.0, 10.0, 1234.5]))
        dts = rng.choice([0.01, 0.02, 0.05, 0.013], size=N) * rng.choice([1, 1, 1, 10], size=N)
        stamps = t0 + np.cumsum(dts)
        inc = filt.make_increments(m, t0, stamps, rng)
        inc[['theta_x', 'theta_y', 'theta_z']] += (0.3 * rng.randn(N, 3)) * inc[['dt']].values    # 3-axis rotation
        inc[['dv_x', 'dv_y', 'dv_z']] += (15.0 * rng.randn(N, 3)) * inc[['dt']].values             # up to ~2 g, also vertical
        quiet = rng.rand(N) < 0.2                                                                      # rows below the small-angle threshold of the kernel
        inc.loc[inc.index[quiet], ['theta_x', 'theta_y', 'theta_z']] *= 1e-4
        if N > 3 and rng.rand() < 0.3:
            inc.iloc[int(rng.randint(N)), 1:4] = 0.0                                                   # an exactly zero rotation
        self.inc = inc
        self.inc_snapshot = inc.values.copy()
        self.times = [t0] + [float(x) for x in stamps]
        self.bases = {}
        self.base_row = {}
        self.perm = perm_labels
        self.oracle = {}

    def new_pva(self, label, vd_zero, allow_perm=True):
        rng = self.rng
        p = filt.make_pva(self.m, label, rng, 0.0 if vd_zero else float(rng.choice([4.0, -2.5, 0.75])))
        # the whole input domain: both hemispheres, high latitudes, the date line, negative altitude, angles outside the
        # canonical ranges (a heading of 200 or -190 degrees is a legitimate input and must be kept as supplied)
        if rng.rand() < 0.5:
            p['lat'] = float(rng.choice([-84.5, -33.25, 0.0, 1e-9, 72.5, 84.5]))
            p['lon'] = float(rng.choice([-179.99, 179.99, 0.0, 123.456]))
            p['alt'] = float(rng.choice([-400.0, 0.0, 18000.0]))
        if rng.rand() < 0.4:
            p['heading'] = float(rng.choice([200.0, -190.0, 370.0, 180.0, -180.0]))
            p['roll'] = float(rng.choice([p['roll'], 179.0, -181.0]))
            p['pitch'] = float(rng.choice([p['pitch'], 60.0, -75.0]))
        if self.perm and allow_perm and rng.rand() < 0.5:
            p = p[list(rng.permutation(COLS))]
        return p

    def start(self, vd_zero):
        Base = self.m["strapdown"].Integrator
        cap0 = self.cap0
        cls = type("Small", (Base,), {"INITIAL_SIZE": cap0}) if cap0 else Base
        p = self.new_pva(self.times[0], vd_zero, allow_perm=False)   # the documented Pva label order for the constructor ...
        # ... in most episodes; in a quarter of the label-permuting ones the constructor's Pva carries its labels in another order (it is
        # read by label; the trajectory then keeps that column order, and set_pva must still write the row by label: seeded change C02_9)
        self.ctor_perm = bool(self.perm and self.rng.rand() < 0.25)
        if self.ctor_perm:
            p = p[list(self.rng.permutation(COLS))]
        self.bases[0] = p
        self.base_row[0] = 1
        self.obj = cls(p.copy(), self.alt)
        self.pva_snap = p.copy()

    # ---- oracle
    def interp(self, term):
        """term: dict(base, incs) -> (bytes key, values, label) of the row single-shot integration gives."""
        b, incs = term["base"], tuple(term["incs"])
        key = (b, incs)
        if key in self.oracle:
            return self.oracle[key]
        Base = self.m["strapdown"].Integrator
        p = self.bases[b]
        label = self.times[self.base_row[b] - 1]
        fresh = Base(self.pd.Series(p[COLS].values, index=COLS, name=label), self.alt)
        if incs:
            rowsl = []
            for i in incs:
                r = self.inc.iloc[abs(i) - 1]
                rowsl.append(self.scale(r) if i < 0 else r)
            tab = self.pd.DataFrame(rowsl)
            out = fresh.integrate(tab)
            row = fresh.trajectory.iloc[-1]
            # a single-shot integration writes all rows at once: cache every prefix that contains no scaled row
            for c in range(1, len(incs) + 1):
                if all(i > 0 for i in incs[:c]):
                    rr = fresh.trajectory.iloc[c]
                    self.oracle.setdefault((b, incs[:c]), (row_key(rr.values, rr.name), rr.values.copy(), rr.name))
        else:
            row = fresh.trajectory.iloc[0]
        self.oracle[key] = (row_key(row.values, row.name), row.values.copy(), row.name)
        return self.oracle[key]

    def scale(self, r):
        return 0.375 * r

    def form(self, x):
        """Increments are label-indexed: the same table / row with its labels in another order (dt last, dv before theta, an extra
        column) is the same input (seeded change C02_6: predict read its row by position)."""
        if not self.perm or self.rng.rand() < 0.5:
            return x
        order = [list(x.columns if x.ndim == 2 else x.index)[i] for i in self.rng.permutation(7)]
        if x.ndim == 2:
            y = x[order].copy()
            if self.rng.rand() < 0.3:
                y.insert(0, "flag", 1.0)
            return y
        y = x[order].copy()
        y.name = x.name
        return y

    # ---- actions (return value of the call)
    def do(self, op):
        o = self.obj
        if op[0] == "I":
            k = op[1]
            n = len(o.trajectory) - 1      # increments consumed
            return o.integrate(self.form(self.inc.iloc[n:n + k]))
        if op[0] == "P":
            r = self.inc.iloc[op[1] - 1]
            return o.predict(self.form(self.scale(r) if op[2] else r))
        if op[0] == "S":
            nrow = len(o.trajectory)
            p = self.new_pva(self.times[nrow - 1], op[1])
            how = op[2] if len(op) > 2 else "new"
            if how != "new":
                q = o.get_pva().copy()
                if how == "keepatt":          # a position / velocity correction: attitude exactly as reported
                    for c in ('lat', 'lon', 'alt', 'VN', 'VE'):
                        q[c] = p[c]
                if not op[1]:
                    q['VD'] = p['VD']         # supplied VD non-zero
                elif not self.alt:
                    q['VD'] = 0.0
                p = self.pd.Series(q[COLS].values, index=COLS, name=p.name)
            b = max(self.bases) + 1
            self.bases[b] = p
            self.base_row[b] = nrow
            self.set_snap = p.copy()
            o.set_pva(p)
            if not (self.set_snap.values.tobytes() == p.values.tobytes() and list(self.set_snap.index) == list(p.index)):
                return "set_pva modified its argument"
            return None
        if op[0] == "G":
            return (o.get_pva(), o.get_time())
        raise ValueError(op)

    # ---- comparison with a specification state
    def compare(self, op, state, result):
        """Returns (contract problems, refinement problems) - lists of strings."""
        bad, drift = [], []
        o = self.obj
        tr = o.trajectory
        rows = state["rows"]
        if len(tr) != len(rows):
            bad.append("trajectory has %d rows, specification %d" % (len(tr), len(rows)))
            return bad, drift
        labels = [float(x) for x in tr.index]
        if labels != self.times[:len(rows)]:
            bad.append("time index is not start time followed by every increment time exactly once: %r" % labels[:8])
        if (sorted(tr.columns) != sorted(COLS)) if getattr(self, "ctor_perm", False) else (list(tr.columns) != COLS):
            bad.append("trajectory columns %r" % list(tr.columns))
            return bad, drift
        vals = tr[COLS].values
        for j, r in enumerate(rows):
            key, ov, ol = self.interp(r)
            if row_key(vals[j], labels[j]) != key:
                bad.append("row %d (term base=%s incs=%s) differs from single-shot integration: max |d| = %.3g"
                           % (j, r["base"], list(r["incs"]), float(np.nanmax(np.abs(vals[j] - ov)))))
                break
        if not self.alt:
            for j, r in enumerate(rows):
                if vals[j][5] != 0.0:
                    bad.append("2D: row %d has VD = %r" % (j, vals[j][5]))
                    break
                alt_src = self.bases[r["altOf"]]['alt']
                if np.float64(vals[j][2]).tobytes() != np.float64(alt_src).tobytes():
                    bad.append("2D: row %d altitude %r differs from the most recently supplied altitude %r" % (j, vals[j][2], float(alt_src)))
                    break
        # return value
        ret = state["ret"]
        if op[0] == "I":
            if not hasattr(result, "values") or len(result) != len(ret):
                bad.append("integrate returned %s rows, expected previous last row + %d appended" % (getattr(result, "shape", None), len(ret) - 1))
            else:
                rv = result[COLS].values
                for j, r in enumerate(ret):
                    if row_key(rv[j], result.index[j]) != self.interp(r)[0]:
                        bad.append("integrate: returned row %d differs from the trajectory row it stands for" % j)
                        break
        elif op[0] == "P":
            key, ov, ol = self.interp(ret[0])
            if row_key(result[COLS].values, result.name) != key or sorted(result.index) != sorted(COLS):
                bad.append("predict differs from the row the next integrate of that increment appends: max |d| = %.3g, label %r vs %r"
                           % (float(np.nanmax(np.abs(np.asarray(result.values, float) - ov))), result.name, ol))
            if not self.alt and (result['VD'] != 0.0 or np.float64(result['alt']).tobytes() != np.float64(self.bases[ret[0]["altOf"]]['alt']).tobytes()):
                bad.append("2D: predict returned VD = %r alt = %r" % (result['VD'], result['alt']))
        elif op[0] == "G":
            pva, t = result
            if row_key(pva[COLS].values, pva.name) != row_key(vals[-1], labels[-1]) or float(t) != labels[-1]:
                bad.append("get_pva/get_time differ from the last trajectory row")
        elif op[0] == "S" and result:
            bad.append(result)
        # buffers
        ln = {len(o.lla), len(o.velocity_n), len(o.mat_nb)}
        if len(ln) != 1 or min(ln) < len(rows):
            bad.append("buffer lengths %r < rows written %d" % (sorted(ln), len(rows)))
        elif min(ln) != state["cap"]:
            drift.append("capacity %d, model %d" % (min(ln), state["cap"]))
        if self.inc.values.tobytes() != self.inc_snapshot.tobytes():
            bad.append("the increments table passed to the integrator was modified")
        return bad, drift


def replay_behaviour(m, task):
    """task: dict(N, cap0, alt, seed, ops=[...], states=[spec state after each op], init=spec initial state).
    Returns dict(bad=[...], drift=[...], crossed=bool)."""
    ep = Episode(m, task["N"], task["cap0"], task["alt"], task["seed"], perm_labels=task.get("perm", False))
    init_vdz = bool(task["init"]["rows"][0]["vd0"]) if task["alt"] else bool(task["seed"] % 2)
    ep.start(init_vdz)
    bad, drift = ep.compare(("N",), task["init"], None)
    crossed = False
    for op, st in zip(task["ops"], task["states"]):
        cap_before = len(ep.obj.lla)
        try:
            res = ep.do(op)
        except Exception as e:
            bad.append("%s raised %s: %s" % (op, type(e).__name__, str(e)[:200]))
            break
        b, d = ep.compare(op, st, res)
        crossed = crossed or len(ep.obj.lla) != cap_before
        if b:
            bad += ["after %s: %s" % (list(op), x) for x in b]
            break
        drift += d
    return dict(bad=bad, drift=drift[:3], crossed=crossed)


# ---------------------------------------------------------------------------------------------
# leg T: recorded episodes (code -> specification)

def record_episode(m, task):
    """Random call history on the real Integrator, recorded for IntegratorTrace.tla.
    task: dict(N, cap0, alt, seed, nops, tid)."""
    N, seed = task["N"], task["seed"]
    ep = Episode(m, N, task["cap0"], task["alt"], seed, perm_labels=True)
    rng = np.random.RandomState((seed * 7 + 1) % (2 ** 31))
    initvdz = bool(rng.rand() < 0.5)
    ep.start(initvdz)
    ids = {}
    def iid(b):
        return ids.setdefault(b, len(ids) + 1)
    def rid(values, label):
        return iid(row_key(values, label))
    def aid(x):
        return iid(b"alt" + np.float64(x).tobytes())
    ops = []
    baserow = [1]
    maxc = {0: 0}            # base -> largest number of increments applied under it
    porc_req = []            # (base, c, signed i)
    cur_base = 0
    exc = ""
    o = ep.obj
    for _ in range(task["nops"]):
        n = len(o.trajectory)
        fed = n - 1
        u = rng.rand()
        if u < 0.45 and fed < N:
            k = int(rng.choice([0, 1, 1, 2, 3, 5, 8, N - fed]))
            k = min(k, N - fed)
            op = dict(op="I", k=k)
            call = ("I", k)
        elif u < 0.7:
            i = int(fed + 1) if (fed < N and rng.rand() < 0.6) else int(rng.randint(1, N + 1))
            sc = bool(rng.rand() < 0.4)
            op = dict(op="P", i=i, sc=sc)
            call = ("P", i, sc)
        elif u < 0.85 and len(baserow) < 6:
            vdz = bool(rng.rand() < 0.5)
            how = str(rng.choice(["new", "keepatt", "same"]))
            op = dict(op="S", vdz=vdz, how=how)
            call = ("S", vdz, how)
        else:
            op = dict(op="G")
            call = ("G",)
        try:
            res = ep.do(call)
        except Exception as e:
            exc = "%s raised %s: %s" % (call, type(e).__name__, str(e)[:200])
            break
        if call[0] == "S":
            cur_base = len(baserow)
            baserow.append(n)
            maxc[cur_base] = 0
        tr = o.trajectory
        n2 = len(tr)
        maxc[cur_base] = max(maxc[cur_base], n2 - baserow[cur_base])
        vals = tr[COLS].values if list(tr.columns) != COLS else tr.values
        labels = [float(x) for x in tr.index]
        tmap = {t: j for j, t in enumerate(ep.times)}
        obs = dict(n=n2, cap=int(min(len(o.lla), len(o.velocity_n), len(o.mat_nb))),
                   rows=[rid(vals[j], labels[j]) for j in range(n2)],
                   times=[tmap.get(t, -1) for t in labels],
                   vdz=[bool(vals[j][5] == 0.0) for j in range(n2)], alts=[aid(vals[j][2]) for j in range(n2)],
                   pure=bool(ep.inc.values.tobytes() == ep.inc_snapshot.tobytes() and (sorted(tr.columns) == sorted(COLS) if getattr(ep, "ctor_perm", False) else list(tr.columns) == COLS) and not (isinstance(res, str) and res.startswith("set_pva modified"))),
                   ret=[], retvdz=True, retalts=[])
        if call[0] == "I":
            rv = res[COLS].values
            obs["ret"] = [rid(rv[j], res.index[j]) for j in range(len(res))]
            obs["retalts"] = [aid(rv[j][2]) for j in range(len(res))]
            obs["retvdz"] = bool((rv[:, 5] == 0.0).all())
        elif call[0] == "P":
            obs["ret"] = [rid(res[COLS].values, res.name)]
            obs["retalts"] = [aid(res['alt'])]
            obs["retvdz"] = bool(res['VD'] == 0.0)
            porc_req.append((cur_base, n2 - baserow[cur_base], -call[1] if call[2] else call[1]))
        elif call[0] == "G":
            pva, t = res
            obs["ret"] = [rid(pva[COLS].values, pva.name)]
            obs["retalts"] = [aid(pva['alt'])]
            obs["retvdz"] = bool(pva['VD'] == 0.0)
            if float(t) != labels[-1]:
                obs["pure"] = False
        op["obs"] = obs
        ops.append(op)
    # oracle tables (fresh object, ONE integrate call with exactly c increments)
    orc = []
    for b in range(len(baserow)):
        lst = []
        for c in range(min(maxc[b] + 1, N - baserow[b] + 1) + 1):      # one more: predict of the next increment
            incs = tuple(range(baserow[b], baserow[b] + c))
            lst.append(iid(ep.interp(dict(base=b, incs=incs))[0]))
        orc.append(lst)
    porc = []
    for (b, c, i) in porc_req:
        incs = tuple(range(baserow[b], baserow[b] + c)) + (i,)
        porc.append(dict(b=b, c=c, i=i, id=iid(ep.interp(dict(base=b, incs=incs))[0])))
    basealt = [aid(ep.bases[b]['alt']) for b in range(len(baserow))]
    return dict(tid=task["tid"], initvdz=initvdz, ops=ops, orc=orc, porc=porc, basealt=basealt, baserow=baserow, exc=exc,
                seed=seed, cap0=task["cap0"], alt=task["alt"], N=N)


def record_big_episode(m, task):
    """Call history around the default capacity of 10 000 rows (no subclassing), for IntegratorCapTrace.tla."""
    seed = task["seed"]
    Base = m["strapdown"].Integrator
    cap0 = int(Base.INITIAL_SIZE)
    N = cap0 + 40
    ep = Episode(m, N, None, task["alt"], seed)
    rng = np.random.RandomState((seed * 13 + 5) % (2 ** 31))
    ep.start(bool(rng.rand() < 0.5))
    o = ep.obj
    ops = []
    exc = ""
    # an early overwrite of the state (new altitude, non-zero VD): everything after it must be what a fresh integrator started
    # from that state gives - also across the capacity boundary thousands of rows later
    pre = [3, 40, 0, 333][task["tid"] % 4] if task.get("setpva", True) else 0     # by trace number: every run has overwrites at rows 3, 40, 333
    head = None
    if pre:
        o.integrate(ep.inc.iloc[:pre])
        head = o.trajectory.iloc[:pre].copy()
        p = ep.new_pva(ep.times[pre], bool(rng.rand() < 0.5), allow_perm=False)
        o.set_pva(p)
        fresh = Base(p.copy(), task["alt"])
        fresh.integrate(ep.inc.iloc[pre:])
        ov = np.vstack([head.values, fresh.trajectory.values])
        oi = np.hstack([np.asarray(head.index, dtype=float), np.asarray(fresh.trajectory.index, dtype=float)])
        ops.append(dict(op="I", k=pre, n=pre + 1, cap=int(len(o.lla)), ret_ok=True, rows_ok=True, index_ok=True))
        ops.append(dict(op="S", k=0, n=pre + 1, cap=int(len(o.lla)), ret_ok=True,
                        rows_ok=bool(o.trajectory.values.tobytes() == ov[:pre + 1].tobytes()), index_ok=True))
    else:
        fresh = Base(ep.bases[0].copy(), task["alt"])
        fresh.integrate(ep.inc)
        ov = fresh.trajectory.values
        oi = np.asarray(fresh.trajectory.index, dtype=float)
    first = cap0 - int(rng.choice([1, 2, 3, 4, 7]))        # rows after the first chunk: just below the boundary
    plan = [("I", first - 1 - pre)]
    while True:
        u = rng.rand()
        plan.append(("I", int(rng.choice([0, 1, 1, 2, 3]))) if u < 0.5 else (("P",) if u < 0.8 else ("G",)))
        if sum(p[1] for p in plan if p[0] == "I") >= N - 10 or len(plan) > 60:
            break
    plan.append(("I", 10 ** 9))
    for p in plan:
        n = len(o.trajectory)
        fed = n - 1
        try:
            if p[0] == "I":
                k = min(p[1], N - fed)
                res = o.integrate(ep.inc.iloc[fed:fed + k])
                ret_ok = bool(len(res) == k + 1 and res.values.tobytes() == ov[n - 1:n + k].tobytes()
                              and np.asarray(res.index, dtype=float).tobytes() == oi[n - 1:n + k].tobytes())
                op = dict(op="I", k=k)
            elif p[0] == "P":
                if fed >= N:
                    continue
                res = o.predict(ep.inc.iloc[fed])
                ret_ok = bool(res.values.tobytes() == ov[n].tobytes() and float(res.name) == float(oi[n]))
                op = dict(op="P", k=0)
            else:
                pva, t = o.get_pva(), o.get_time()
                ret_ok = bool(pva.values.tobytes() == ov[n - 1].tobytes() and float(t) == float(oi[n - 1]))
                op = dict(op="G", k=0)
        except Exception as e:
            exc = "%s raised %s: %s" % (p, type(e).__name__, str(e)[:200])
            break
        tr = o.trajectory
        n2 = len(tr)
        op.update(n=n2, cap=int(min(len(o.lla), len(o.velocity_n), len(o.mat_nb))), ret_ok=ret_ok,
                  rows_ok=bool(tr.values.tobytes() == ov[:n2].tobytes()),
                  index_ok=bool(np.asarray(tr.index, dtype=float).tobytes() == oi[:n2].tobytes()))
        ops.append(op)
    return dict(tid=task["tid"], ops=ops, exc=exc, seed=seed, alt=task["alt"], NInc=N, Cap0=cap0)
