"""Running the real pyins filters under external probes (no in-repo hooks) and abstracting the run.

A *task* is a plain dict (picklable):
  kind   'fb' | 'ff'
  start  float (fb) ; for ff the first element of `times`
  imu    list of float increment stamps (fb) / `times` list of float row stamps (ff)
  meas   list of [class name, [float stamps]]   (order = order of the `measurements` list)
  step   float time_step
  alt    bool with_altitude
  models 'none' | 'default' | 'bias' | 'full'      sensor EstimationModels handed to the filter
  form   'list' | 'none' | 'empty'                 how an empty measurement list is passed
  inc    bool (ff) pass `increments`
  seed   int
  vd0    float initial VD (fb) - non-zero to exercise the 2D clauses

run_task() returns a *record*: the task, `events` (one line per specification action, float stamps) and
`obs` (observables of the returned Bunch).  abstract_record() replaces stamps by ranks (A1) and adds the
horizon table, giving the JSON object the trace specifications read.
"""
import math, os, sys
import numpy as np


class Diverged(Exception):
    pass


def _imports():
    repo = os.environ.get("VERIF_REPO", "/repo")
    if repo not in sys.path:
        sys.path.insert(0, repo)
    import warnings
    warnings.filterwarnings("ignore")
    import pandas as pd
    import pyins
    from pyins import filters, strapdown, kalman, measurements, inertial_sensor, util, error_model, transform, sim
    assert os.path.abspath(pyins.__file__).startswith(os.path.abspath(repo)), pyins.__file__
    return dict(pd=pd, pyins=pyins, filters=filters, strapdown=strapdown, kalman=kalman, measurements=measurements,
                inertial_sensor=inertial_sensor, util=util, error_model=error_model, transform=transform, sim=sim)


def init_worker():
    """Import pyins from the working tree and JIT-compile the integration kernel once per worker."""
    m = _imports()
    pd = m["pd"]
    pva = make_pva(m, 0.0, np.random.RandomState(0), 0.0)
    it = m["strapdown"].Integrator(pva)
    it.integrate(make_increments(m, 0.0, [0.5, 1.0], np.random.RandomState(0)))
    return m


def make_pva(m, t, rng, vd0):
    pd = m["pd"]
    return pd.Series({'lat': 40.0 + 20 * rng.rand(), 'lon': -30.0 + 60 * rng.rand(), 'alt': 50.0 + 100 * rng.rand(),
                      'VN': rng.randn(), 'VE': rng.randn(), 'VD': float(vd0),
                      'roll': 3 * rng.randn(), 'pitch': 3 * rng.randn(), 'heading': 360 * rng.rand() - 180}, name=t)


def make_increments(m, start, stamps, rng, index=None):
    pd = m["pd"]
    stamps = np.asarray(stamps, dtype=float)
    dt = np.diff(np.hstack([start, stamps]))
    n = len(stamps)
    data = np.empty((n, 7))
    data[:, 0] = dt
    data[:, 1:4] = (2e-3 * rng.randn(n, 3)) * dt[:, None]
    data[:, 4:7] = (np.array([0.0, 0.0, -9.81]) + 0.05 * rng.randn(n, 3)) * dt[:, None]
    return pd.DataFrame(data, index=pd.Index(stamps if index is None else index, name='time'),
                        columns=['dt', 'theta_x', 'theta_y', 'theta_z', 'dv_x', 'dv_y', 'dv_z'])


def make_models(m, kind, rng):
    EM = m["inertial_sensor"].EstimationModel
    if kind == 'none':
        return None, None
    if kind == 'default':
        return EM(), EM()
    if kind == 'bias':
        # "a non-positive element disables the effect for the corresponding axis": disabled axes are spelled 0 and -1 / -2.5
        return (EM(bias_sd=1e-4, noise=[1e-5, -1.0, 1e-5]), EM(bias_sd=[1e-2, -2.5, 1e-2], noise=[1e-3, 1e-3, -1.0], bias_walk=[0, 0, 1e-5]))     # the walk-driven bias is NOT the first bias state
    if kind == 'asym':      # an asymmetric scale/misalignment pattern (upper triangle; a single off-diagonal element)
        return (EM(bias_sd=1e-4, noise=1e-5, scale_misal_sd=[[1e-3, 1e-3, 1e-3], [0, 1e-3, 1e-3], [0, 0, 1e-3]]),
                EM(bias_sd=[1e-2, 0, 1e-2], noise=1e-3, scale_misal_sd=[[0, 0, 0], [0, 0, 1e-3], [0, 0, 0]]))
    if kind == 'tiny':      # navigation-grade: biases of ~1e-9 rad/s (0.0002 deg/h) and 1e-8 m/s^2 - estimates far below any absolute tolerance
        return (EM(bias_sd=2e-9, noise=1e-9), EM(bias_sd=[1e-8, 2e-8, 1e-8], noise=1e-8))
    if kind == 'full':
        return (EM(bias_sd=1e-4, noise=1e-5, bias_walk=1e-7, scale_misal_sd=1e-3),
                EM(bias_sd=1e-2, noise=1e-3, bias_walk=1e-5, scale_misal_sd=1e-3))
    raise ValueError(kind)


COLS9 = ['lat', 'lon', 'alt', 'VN', 'VE', 'VD', 'roll', 'pitch', 'heading']


def close_cov(A, B, rtol=1e-9):
    A = np.asarray(A, float); B = np.asarray(B, float)
    if A.shape != B.shape:
        return False
    if A.size == 0:
        return True
    if not (np.isfinite(A).all() and np.isfinite(B).all()):
        return False
    d = np.sqrt(np.abs(np.diag(B)))
    tol = rtol * np.outer(d, d) + 1e-12 * (d.max() ** 2 if d.size else 0.0)
    return bool((np.abs(A - B) <= tol).all())


def close_vec(a, b, scale, rtol=1e-9):
    a = np.asarray(a, float); b = np.asarray(b, float)
    if a.shape != b.shape:
        return False
    if a.size == 0:
        return True
    if not (np.isfinite(a).all() and np.isfinite(b).all()):
        return False
    return bool((np.abs(a - b) <= rtol * (np.abs(b) + np.asarray(scale, float)) + 1e-300).all())


# Python mirror of JointSystem.tla's TermTable (the specification is the source: check_c11 compares what TLC prints with this)
JOINT_TERMS = dict(
    F=[["Fii", "Fig*Hg", "Fia*Ha"], ["0", "gyro.F", "0"], ["0", "0", "accel.F"]],
    G=[["Fig*gyro.J", "Fia*accel.J", "0", "0"], ["0", "0", "gyro.G", "0"], ["0", "0", "0", "accel.G"]],
    Q=["gyro.v", "accel.v", "gyro.q", "accel.q"],
    P0=[["T*Ppva*T'", "0", "0"], ["0", "gyro.P", "0"], ["0", "0", "accel.P"]],
    H=["H", "0", "0"])


def assemble(table, env, row_sizes, col_sizes):
    """Block matrix from a table of term names; '0' is a zero block, 'A*B' a product of two named matrices."""
    M = np.zeros((sum(row_sizes), sum(col_sizes)))
    r0 = 0
    for i, rs in enumerate(row_sizes):
        c0 = 0
        for j, cs in enumerate(col_sizes):
            t = table[i][j]
            if t != "0" and rs and cs:
                if "*" in t:
                    parts = t.split("*")
                    v = env[parts[0]]
                    for q in parts[1:]:
                        v = v @ (env[q[:-1]].transpose() if q.endswith("'") else env[q])
                else:
                    v = env[t]
                M[r0:r0 + rs, c0:c0 + cs] = v
            c0 += cs
        r0 += rs
    return M


def _safe(default):
    """An exception inside an observer is a defect of the harness, never an observation about the code under test: it is
    recorded (run_task turns it into a machinery error), the observer is switched off, and the filter run continues."""
    def deco(fn):
        def wrapped(self, *a, **k):
            if self.error:
                return default() if callable(default) else default
            try:
                return fn(self, *a, **k)
            except Exception as e:
                import traceback
                self.error = "%s in Flow.%s: %s | %s" % (type(e).__name__, fn.__name__, e, traceback.format_exc().splitlines()[-3:])
                return default() if callable(default) else default
        return wrapped
    return deco


class Flow:
    """Dataflow of the estimation recursion, observed from outside (DESIGN.md s6 C11/C12, FilterDataflow clauses of the trace
    specifications).  The harness keeps its own copy of what the covariance P and the error vector x MUST be at every moment -
    the initial covariance built from the public transform_to_internal, every kalman.correct output, Phi P Phi' + Qd (and Phi x)
    after every propagation - and logs, for every observed call, whether its inputs are that value (bit-identical: refinement;
    within 1e-9 relative: contract)."""

    def __init__(self, m, kind, alt, gm, am, sds):
        self.m, self.kind, self.alt = m, kind, bool(alt)
        self.em = m["error_model"].InsErrorModel(bool(alt))
        self.ni = self.em.n_states
        self.gm, self.am = gm, am
        EMcls = m["inertial_sensor"].EstimationModel
        self.gmt = gm if gm is not None else EMcls()          # what the filter uses when no model is given (documented default)
        self.amt = am if am is not None else EMcls()
        self.innov = {}
        self.ng = gm.n_states if gm is not None else 0
        self.na = am.n_states if am is not None else 0
        self.n = self.ni + self.ng + self.na
        self.sds = sds
        self.P = None
        self.x = np.zeros(self.n)
        self.ids = {}
        self.snaps = []
        self.notes = []
        self.p0_bit = self.p0_close = None
        self.first_in_epoch = True
        self.last_ret = {}
        self.error = ""
        self.p0id = 0

    def note(self, s):
        if len(self.notes) < 6:
            self.notes.append(s)

    def iid(self, a):
        b = np.ascontiguousarray(np.asarray(a, dtype=np.float64)).tobytes() + str(np.shape(a)).encode()
        return self.ids.setdefault(b, len(self.ids) + 1)

    @_safe(None)
    def start(self, pva):
        em = self.em
        pos, vel, lev, az = self.sds
        Pp = np.zeros((9, 9))
        for i, v in ((em.DRN, pos), (em.DRE, pos), (em.DRD, pos), (em.DVN, vel), (em.DVE, vel), (em.DVD, vel),
                     (em.DROLL, lev), (em.DPITCH, lev), (em.DHEADING, az)):
            Pp[i, i] = v ** 2
        T = em.transform_to_internal(pva)
        sizes = [self.ni, self.ng, self.na]
        self.P = assemble(JOINT_TERMS["P0"], {"T": T, "Ppva": Pp, "gyro.P": self.gmt.P, "accel.P": self.amt.P}, sizes, sizes)
        self.p0id = self.iid(self.P)

    @_safe(None)
    def new_epoch(self):
        self.first_in_epoch = True
        if self.kind == "fb":
            self.x = np.zeros(self.n)

    def seen_first_P(self, Pin):
        if self.p0_bit is None:
            self.p0_bit = bool(np.shape(Pin) == np.shape(self.P) and np.asarray(Pin, float).tobytes() == self.P.tobytes())
            self.p0_close = close_cov(Pin, self.P)
            if not self.p0_close:
                self.note("initial covariance is not T diag(sd^2) T' (+ sensor-model P blocks) built from transform_to_internal")

    @_safe(lambda: dict(s=0, pin=0, pout=0, xin=0, xout=0, pin_bit=True, pin_close=True, xin_ok=True, xin_bit=True, args_ok=True, out_ok=True))
    def on_correct(self, sidx, xin, Pin, z, H, R, out):
        xout, Pout, innov = out
        if not self.snaps and self.p0_bit is None:
            self.seen_first_P(Pin)
        sd = np.sqrt(np.abs(np.diag(self.P))) if self.P is not None and np.shape(self.P)[0] == np.shape(xin)[0] else 0.0
        c = dict(s=sidx + 1, pin=self.iid(Pin), pout=self.iid(Pout), xin=self.iid(xin), xout=self.iid(xout),
                 pin_bit=bool(np.asarray(Pin, float).tobytes() == np.asarray(self.P, float).tobytes()),
                 pin_close=close_cov(Pin, self.P))
        if self.kind == "fb" and self.first_in_epoch:
            c["xin_ok"] = bool(np.shape(xin) == (self.n,) and not np.any(xin))
            c["xin_bit"] = c["xin_ok"]
        else:
            c["xin_ok"] = close_vec(xin, self.x, sd)
            c["xin_bit"] = bool(np.asarray(xin, float).tobytes() == np.asarray(self.x, float).tobytes())
        ret = self.last_ret.get(sidx)
        ok = ret is not None
        if ok:
            zr, Hr, Rr = ret
            Hf = np.asarray(H, float)
            ok = (np.array_equal(np.asarray(z, float), np.asarray(zr, float)) and np.array_equal(np.asarray(R, float), np.asarray(Rr, float))
                  and Hf.shape == (len(np.asarray(zr)), self.n) and np.array_equal(Hf[:, :self.ni], np.asarray(Hr, float))
                  and not np.any(Hf[:, self.ni:]))
        c["args_ok"] = bool(ok)
        # the step itself: the conditional-Gaussian update in its plain textbook form (C07 decides this exactly on its own domain; here
        # it is a numeric predicate on the real data, 1e-6 relative to the PRIOR scale - far above what the plain form loses to
        # cancellation on these runs and far below the effect of a wrong update)
        try:
            Pp = np.asarray(Pin, float); Hh = np.asarray(H, float); Rr_ = np.asarray(R, float)
            e = np.asarray(z, float) - Hh @ np.asarray(xin, float)
            S = Hh @ Pp @ Hh.T + Rr_
            K = np.linalg.solve(S, Hh @ Pp).T
            xe = np.asarray(xin, float) + K @ e
            Pe = Pp - K @ S @ K.T
            dsc = np.sqrt(np.abs(np.diag(Pp)))
            tolP = 1e-6 * np.outer(dsc, dsc) + 1e-300
            tolx = 1e-6 * (dsc + np.abs(xe)) + 1e-300
            c["out_ok"] = bool(np.isfinite(np.asarray(Pout, float)).all() and (np.abs(np.asarray(Pout, float) - Pe) <= tolP).all()
                               and (np.abs(np.asarray(xout, float) - xe) <= tolx).all())
        except np.linalg.LinAlgError:
            c["out_ok"] = True           # a singular innovation covariance: nothing to compare with
        if not c["out_ok"]:
            self.note("kalman.correct did not return the conditional mean / covariance for a %d-row measurement" % len(np.asarray(z)))
        if not c["pin_close"]:
            self.note("kalman.correct was given a covariance that is not the current one (last correction / propagation result)")
        if not c["xin_ok"]:
            self.note("kalman.correct was given an error vector that is not the current one (zeros at the start of a feedback epoch, the last result otherwise)")
        if not c["args_ok"]:
            self.note("kalman.correct was not given the (z, H placed in the INS block and zero elsewhere, R) the measurement model returned")
        self.first_in_epoch = False
        self.innov.setdefault(sidx, []).append(np.array(innov, dtype=float, copy=True))
        self.P = np.array(Pout, dtype=float, copy=True)
        self.x = np.array(xout, dtype=float, copy=True)
        return c

    @_safe(True)
    def on_increments(self, batch, raw):
        """The increments handed to the integrator are the raw ones corrected by the CURRENT sensor estimates (what C14 decides
        correct_increments to be: solve(transform, inc - bias dt)).  Judged relative to the size of the correction itself, so that a
        correction of 1e-11 rad that is silently skipped is seen (seeded change C12_7)."""
        if raw is None:
            return True
        TH, DV = ['theta_x', 'theta_y', 'theta_z'], ['dv_x', 'dv_y', 'dv_z']
        rows = raw.loc[batch.index]
        dt = np.asarray(rows['dt'].values, float)[:, None]
        ok = True
        for mdl, cols in ((self.gm, TH), (self.am, DV)):
            r = np.asarray(rows[cols].values, float)
            if mdl is None:
                want = r
            else:
                want = np.linalg.solve(np.asarray(mdl.transform, float), (r - np.asarray(mdl.bias, float) * dt).T).T
            got = np.asarray(batch[cols].values, float)
            tol = 1e-9 * np.abs(want) + 1e-6 * np.abs(want - r) + 1e-300
            if got.shape != want.shape or not (np.abs(got - want) <= tol).all():
                ok = False
                self.note("the increments handed to the integrator are not the raw increments corrected by the current %s estimates (deviation %.3g, correction %.3g)"
                          % ("gyro" if cols is TH else "accelerometer", float(np.abs(got - want).max()) if got.shape == want.shape else float("nan"),
                             float(np.abs(want - r).max())))
        if not np.array_equal(np.asarray(batch['dt'].values, float), dt[:, 0]):
            ok = False
            self.note("the dt column of the corrected increments differs from the raw one")
        return ok

    @_safe(True)
    def on_predict(self, increment, raw, T):
        """The increment handed to predict at a measurement epoch is the fraction (epoch - T) / dt of the NEXT raw increment corrected by
        the current sensor estimates: its dt lies in [0, dt), and theta / dv are that fraction of the corrected row (s11 item 4)."""
        if raw is None:
            return True
        TH, DV = ['theta_x', 'theta_y', 'theta_z'], ['dv_x', 'dv_y', 'dv_z']
        later = raw.index[np.asarray(raw.index, float) > float(T)]
        if len(later) == 0:
            self.note("predict was called after the last increment")
            return False
        row = raw.loc[later[0]]
        dt = float(row['dt'])
        frac = float(increment['dt']) / dt
        ok = True
        if not (-1e-12 <= frac < 1.0 + 1e-12):
            ok = False
            self.note("predict was handed an increment of %.6g s although the interval to the next sample is %.6g s" % (float(increment['dt']), dt))
        for mdl, cols in ((self.gm, TH), (self.am, DV)):
            r = np.asarray(row[cols].values, float)
            full = r if mdl is None else np.linalg.solve(np.asarray(mdl.transform, float), r - np.asarray(mdl.bias, float) * dt)
            want = frac * full
            got = np.asarray(increment[cols].values, float)
            tol = 1e-9 * np.abs(want) + 1e-6 * np.abs(frac * (full - r)) + 1e-300
            if got.shape != want.shape or not (np.abs(got - want) <= tol).all():
                ok = False
                self.note("the increment handed to predict is not the fraction %.6g of the next raw increment corrected by the current %s estimates (deviation %.3g)"
                          % (frac, "gyro" if cols is TH else "accelerometer", float(np.abs(got - want).max()) if got.shape == want.shape else float("nan")))
        return ok

    @_safe(0)
    def snapshot(self, t):
        est = []
        for mdl in (self.gm, self.am):
            est.append(None if mdl is None else np.asarray(mdl.get_estimates().values, float).copy())
        self.snaps.append(dict(t=float(t), P=None if self.P is None else self.P.copy(), x=self.x.copy(), est=est, pid=self.iid(self.P)))
        return self.snaps[-1]["pid"]

    def system(self, pva_avg, gyro_avg, accel_avg):
        """The continuous joint system (F, Q) from JointSystem's block terms, interpreted with the public pieces."""
        Fii, Fig, Fia = self.em.system_matrices(pva_avg)
        gm, am = self.gmt, self.amt
        env = {"Fii": Fii, "Fig": Fig, "Fia": Fia, "Hg": gm.output_matrix(gyro_avg), "Ha": am.output_matrix(accel_avg),
               "gyro.F": gm.F, "accel.F": am.F, "gyro.J": gm.J, "accel.J": am.J, "gyro.G": gm.G, "accel.G": am.G}
        sizes = [self.ni, self.ng, self.na]
        nsz = [gm.n_output_noises, am.n_output_noises, gm.n_noises, am.n_noises]
        F = assemble(JOINT_TERMS["F"], env, sizes, sizes)
        G = assemble(JOINT_TERMS["G"], env, sizes, nsz)
        qenv = {"gyro.v": gm.v, "accel.v": am.v, "gyro.q": gm.q, "accel.q": am.q}
        q = np.hstack([np.asarray(qenv[t], float) for t in JOINT_TERMS["Q"]])
        return F, G @ np.diag(q ** 2) @ G.transpose()

    @_safe(dict)
    def on_system(self, F, Q, pva_avg, gyro_avg, accel_avg):
        try:
            Fe, Qe = self.system(pva_avg, gyro_avg, accel_avg)
        except Exception as e:
            self.note("joint system could not be assembled from the public pieces: %s: %s" % (type(e).__name__, str(e)[:100]))
            return dict(fq_ok=False, fq_bit=False)
        F = np.asarray(F, float); Q = np.asarray(Q, float)
        def close(A, B):
            return bool(A.shape == B.shape and np.isfinite(A).all() and (np.abs(A - B) <= 1e-9 * (np.abs(B).max() if B.size else 0.0) + 1e-300).all())
        # entries of F and Q span many orders of magnitude: compare block-wise scaled by rows/columns instead of one global scale
        def close_scaled(A, B):
            if A.shape != B.shape or not np.isfinite(A).all():
                return False
            if not B.size:
                return True
            return bool((np.abs(A - B) <= 1e-9 * np.abs(B) + 1e-12 * np.sqrt(np.outer(np.abs(B).max(axis=1), np.abs(B).max(axis=0))) + 1e-300).all())
        f_ok, q_ok = close_scaled(F, Fe), close_scaled(Q, Qe)
        if not f_ok:
            bad = np.argwhere(~(np.abs(F - Fe) <= 1e-9 * np.abs(Fe) + 1e-12 * np.sqrt(np.outer(np.abs(Fe).max(axis=1), np.abs(Fe).max(axis=0))) + 1e-300)) if F.shape == Fe.shape else []
            self.note("the dynamics matrix handed to compute_process_matrices is not the joint system of JointSystem.tla's block terms (first differing entry %s)" % (bad[0].tolist() if len(bad) else "shape"))
        if not q_ok:
            self.note("the noise density handed to compute_process_matrices is not G diag(q^2) G' of JointSystem.tla's block terms")
        return dict(fq_ok=bool(f_ok and q_ok), fq_bit=bool(F.shape == Fe.shape and F.tobytes() == Fe.tobytes() and Q.shape == Qe.shape and Q.tobytes() == Qe.tobytes()))

    @_safe(lambda: dict(pexp=0))
    def on_propagate(self, dt, Phi, Qd, T, T2):
        d = dict(dt_bit=None, dt_ok=None)
        if T is not None and T2 is not None:
            want = T2 - T
            d["dt_bit"] = bool(float(dt) == want)
            d["dt_ok"] = bool(abs(float(dt) - want) <= 1e-9 * max(1.0, abs(want)))
            if not d["dt_ok"]:
                self.note("the covariance was propagated over %r s while the filter advanced from %r to %r" % (float(dt), T, T2))
        Phi = np.asarray(Phi, float); Qd = np.asarray(Qd, float)
        if Phi.shape == np.shape(self.P):
            self.P = Phi @ self.P @ Phi.transpose() + Qd
            if self.kind == "ff":
                self.x = Phi @ self.x
        d["pexp"] = self.iid(self.P)
        return d

    @_safe((True, True))
    def on_set_pva(self, before, p):
        want = self.em.correct_pva(before, self.x[:self.ni])
        a = np.asarray(p[COLS9].values, float); b = np.asarray(want[COLS9].values, float)
        bit = bool(a.tobytes() == b.tobytes())
        d = np.abs(a - b)
        d[6:] = np.minimum(d[6:] % 360.0, 360.0 - d[6:] % 360.0)
        tol = np.array([1e-12, 1e-12, 1e-7, 1e-9, 1e-9, 1e-9, 1e-9, 1e-9, 1e-9])
        ok = bool(np.isfinite(a).all() and (d <= tol * np.maximum(1.0, np.abs(b))).all())
        if not ok:
            self.note("set_pva was not given correct_pva(current integrator state, x[INS block]): max deviation %.3g in %s" % (
                float(np.nanmax(d)), COLS9[int(np.nanargmax(d))]))
        return bit, ok

    @_safe(True)
    def on_update(self, which, arg):
        lo = self.ni if which == 0 else self.ni + self.ng
        hi = self.ni + self.ng if which == 0 else self.n
        a = np.asarray(arg, float)
        ok = bool(a.shape == (hi - lo,) and np.array_equal(a, self.x[lo:hi]))
        if not ok:
            self.note("update_estimates #%d of the epoch was not given the %s block of the corrected error vector" % (which + 1, "gyro" if which == 0 else "accel"))
        return ok

    # ---- the returned tables against the snapshots
    @_safe(lambda: dict(n_snaps=0, sd_ok=True, est_ok=True, comp_ok=True, rows_ok=False, innov_ok=True))
    def finish(self, res, traj_for_T, traj_in=None):
        out = dict(n_snaps=len(self.snaps), sd_ok=True, est_ok=True, comp_ok=True, rows_ok=True, innov_ok=True)
        pd = self.m["pd"]
        for sidx, name in enumerate(getattr(self, "names", [])):
            tab = res.innovations.get(name)
            got = self.innov.get(sidx, [])
            if tab is None or len(tab) != len(got):
                continue                     # judged by innov_once / used_once
            if len(got) and not np.array_equal(np.asarray(tab.values, float), np.vstack(got)):
                out["innov_ok"] = False
                self.note("innovations[%s] does not hold the normalised innovations kalman.correct returned, in order" % name)
        sdt = res.trajectory_sd
        if len(self.snaps) != len(sdt) or [s["t"] for s in self.snaps] != [float(t) for t in sdt.index]:
            out["rows_ok"] = False           # judged by the index clauses (tables / res_index); nothing to compare row by row
            return out
        ni, ng = self.ni, self.ng
        for k, sn in enumerate(self.snaps):
            P = sn["P"]
            if P is None:
                continue
            row = traj_for_T.loc[sdt.index[k]]
            To = self.em.transform_to_output(row)
            sd = np.sqrt(np.abs(np.diag(To @ P[:ni, :ni] @ To.transpose())))
            got = np.asarray(sdt.iloc[k].values, float)
            if not (np.isfinite(got).all() and np.allclose(got, sd, rtol=1e-7, atol=1e-12 * max(1.0, float(sd.max())))):
                out["sd_ok"] = False
                self.note("trajectory_sd row at t=%r is not sqrt(diag(T P T')) of the covariance the filter held when it recorded that row" % sn["t"])
            for name, lo, hi in (("gyro_sd", ni, ni + ng), ("accel_sd", ni + ng, self.n)):
                got = np.asarray(res[name].iloc[k].values, float)
                want = np.sqrt(np.abs(np.diag(P[lo:hi, lo:hi])))
                if not (got.shape == want.shape and np.allclose(got, want, rtol=1e-9, atol=0)):
                    out["sd_ok"] = False
                    self.note("%s row at t=%r is not the square root of the covariance diagonal" % (name, sn["t"]))
            for name, j, lo, hi in (("gyro", 0, ni, ni + ng), ("accel", 1, ni + ng, self.n)):
                got = np.asarray(res[name].iloc[k].values, float) if res[name].shape[1] else np.zeros(0)
                want = sn["x"][lo:hi] if self.kind == "ff" else (sn["est"][j] if sn["est"][j] is not None else np.zeros(0))
                if not (got.shape == np.shape(want) and np.allclose(got, want, rtol=1e-12, atol=0)):
                    out["est_ok"] = False
                    self.note("%s row at t=%r is not the sensor estimate the filter held when it recorded that row" % (name, sn["t"]))
            if self.kind == "ff" and traj_in is not None:
                e = To @ sn["x"][:ni]                      # estimated error of the computed trajectory, output coordinates
                a = traj_in.loc[[sdt.index[k]]]
                b = res.trajectory.loc[[sdt.index[k]]]
                try:
                    d = self.m["transform"].compute_state_difference(a.iloc[0], b.iloc[0])
                    dv = np.asarray(d[['north', 'east', 'down', 'VN', 'VE', 'VD', 'roll', 'pitch', 'heading']].values, float)
                    # metres <-> degrees at slightly different latitudes / radii: second order in the size of the correction
                    tol = 1e-6 * np.abs(e) + np.array([1e-6] * 3 + [1e-9] * 3 + [1e-9] * 3)
                    tol[:3] += float(e[:3] @ e[:3]) / 1e6
                    dd = np.abs(dv - e)
                    dd[6:] = np.minimum(dd[6:] % 360.0, 360.0 - dd[6:] % 360.0)      # the filter does not wrap the compensated angles
                    if not (dd <= tol).all():
                        out["comp_ok"] = False
                        self.note("compensated trajectory at t=%r is not (computed trajectory - T x): deviation %s" % (sn["t"], np.round(dv - e, 9).tolist()))
                except Exception as ex:
                    out["comp_ok"] = False
                    self.note("compensation check raised %s" % ex)
        return out


class Recorder:
    def __init__(self, budget_adv, budget_meas):
        self.lines = []
        self.n_adv = 0
        self.n_meas = 0
        self.budget_adv = budget_adv
        self.budget_meas = budget_meas
        self.est_updates = 0
        self.resets = 0
        self.flags = set()

    def query(self, sidx, time, pva, ret):
        ln = self.lines[-1] if self.lines else None
        if ln is None or ln["a"] != "M" or ln["t"] != time or sidx <= ln["last"]:
            self.n_meas += 1
            if self.n_meas > self.budget_meas:
                raise Diverged("more measurement epochs processed than the schedule contains")
            ln = dict(a="M", t=float(time), hits=[], last=-1, widths=[], vd=float(pva['VD']), alt=float(pva['alt']), set=0, upd=0, c=[])
            fl = getattr(self, "flow", None)
            if fl is not None:
                fl.new_epoch()
            ip = getattr(self, "state", {}).pop("interp", None)
            if ip is not None:
                ln["row"], ln["nrow"], ln["aok"] = ip[0], ip[1], bool(0.0 <= ip[2] <= 1.0)   # (an epoch one ulp below the next row gives alpha == 1.0 in floats)
                ia = getattr(self, "state", {}).get("interp_args")
                if ia is not None and ip[1] != ip[0]:
                    # the state handed to the measurement models is the linear interpolation of the bracketing rows AT THE EPOCH
                    a = (float(time) - ip[0]) / (ip[1] - ip[0])
                    lin = ['lat', 'lon', 'alt', 'VN', 'VE', 'VD']
                    want = (1 - a) * np.asarray(ia[0][lin].values, float) + a * np.asarray(ia[1][lin].values, float)
                    got = np.asarray(pva[lin].values, float)
                    ln["pva_ok"] = bool(abs(ip[2] - a) <= 1e-12 and np.allclose(got, want, rtol=1e-12, atol=1e-12))
            self.lines.append(ln)
        ln["last"] = sidx
        fl = getattr(self, "flow", None)
        if fl is not None:
            fl.last_ret[sidx] = None if ret is None else tuple(np.array(v, dtype=float, copy=True) for v in ret)
        if ret is not None:
            z, H, R = ret
            ln["hits"].append(sidx + 1)
            ln["widths"].append([len(z), int(np.shape(H)[0]), int(np.shape(R)[0]), int(np.shape(R)[1])])

    def advance(self, line):
        self.n_adv += 1
        if self.n_adv > self.budget_adv:
            raise Diverged("more propagation steps than input rows")
        self.lines.append(line)


def baro_class(m):
    """A user-written scalar measurement, as the documentation of measurements.Measurement invites: barometric altitude.
    Altitude error (INS minus truth) is minus the down position error DR3."""
    M = m["measurements"]

    class BaroAltitude(M.Measurement):
        def __init__(self, data, sd):
            super(BaroAltitude, self).__init__(data[['alt']])
            self.R = np.array([[float(sd) ** 2]])

        def compute_matrices(self, time, pva, error_model):
            if time not in self.data.index or not error_model.with_altitude:
                return None
            z = np.array([float(pva['alt']) - float(self.data.loc[time, 'alt'])])
            H = np.zeros((1, error_model.n_states))
            H[0, error_model.DR3] = -1.0
            return z, H, self.R
    return BaroAltitude


def _wrap_measurement(m, cls_name, data, sidx, rec, rng):
    M = m["measurements"]
    base = baro_class(m) if cls_name == "BaroAltitude" else getattr(M, cls_name)

    def compute_matrices(self, time, pva, error_model):
        ret = base.compute_matrices(self, time, pva, error_model)
        rec.query(sidx, time, pva, ret)
        return ret
    sub = type(cls_name, (base,), {"compute_matrices": compute_matrices})
    if cls_name == "Position":
        return sub(data, 1.0, np.array([0.5, -0.3, 0.2]) if rng.rand() < 0.5 else None)
    if cls_name == "NedVelocity":
        return sub(data, 0.1, np.array([0.5, -0.3, 0.2]) if rng.rand() < 0.5 else None)
    if cls_name == "BaroAltitude":
        return sub(data, 0.5)
    return sub(data, 0.1)


def make_meas_data(m, cls_name, stamps, pva, rng, far=False):
    pd = m["pd"]
    st = np.asarray(stamps, dtype=float)
    n = len(st)
    if cls_name == "Position":
        d = np.tile([pva.lat, pva.lon, pva.alt], (n, 1)) + rng.randn(n, 3) * [1e-5, 1e-5, 1.0]
        if far:          # a coarse initial position: fixes several kilometres (and tens of metres in height) away
            d += [0.04, -0.06, 35.0]
        cols = ['lat', 'lon', 'alt']
    elif cls_name == "NedVelocity":
        d = np.tile([pva.VN, pva.VE, 0.0], (n, 1)) + 0.1 * rng.randn(n, 3)
        cols = ['VN', 'VE', 'VD']
    elif cls_name == "BaroAltitude":
        d = np.tile([pva.alt], (n, 1)) + 0.5 * rng.randn(n, 1)
        cols = ['alt']
    else:
        d = 0.1 * rng.randn(n, 3) + [1.0, 0.0, 0.0]
        cols = ['VX', 'VY', 'VZ']
    return pd.DataFrame(d, index=pd.Index(st, name='time'), columns=cols)


def _finite_tables(m, res):
    pd = m["pd"]
    ok = True
    for k in ("trajectory", "trajectory_sd", "gyro", "gyro_sd", "accel", "accel_sd"):
        v = res[k]
        ok = ok and bool(np.isfinite(np.asarray(v.values, dtype=float)).all()) and bool(np.isfinite(np.asarray(v.index, dtype=float)).all())
    for v in res["innovations"].values():
        ok = ok and bool(np.isfinite(np.asarray(v.values, dtype=float)).all())
    return ok


def run_task(m, task):
    """Execute one filter run under probes. Never raises for anything the code under test does."""
    pd = m["pd"]
    filters, strapdown, kalman = m["filters"], m["strapdown"], m["kalman"]
    rng = np.random.RandomState(task["seed"] % (2 ** 31))
    kind = task["kind"]
    n_rows = len(task["imu"])
    n_ep = len({t for _, st in task["meas"] for t in st})
    rec = Recorder(budget_adv=n_rows + 3, budget_meas=n_ep + 3)
    start = task["start"]
    allst = [start] + list(task["imu"]) + [t for _, st in task["meas"] for t in st]
    intidx = bool(task.get("intidx")) and all(float(t).is_integer() for t in allst)     # integer-typed time stamps everywhere
    pva = make_pva(m, int(start) if intidx else start, rng, task.get("vd0", 0.0))
    if task.get("perm"):
        # a state whose labels are in another order (attitude before velocity, as loaded from a CSV): everything is addressed by label
        pva = pva[['lat', 'lon', 'alt', 'roll', 'pitch', 'heading', 'VD', 'VE', 'VN']]
    gm, am = make_models(m, task["models"], rng)
    meas_objs = []
    for sidx, (cls_name, stamps) in enumerate(task["meas"]):
        data = make_meas_data(m, cls_name, stamps, pva, rng, far=bool(task.get("far")))
        if task.get("shuffle") and len(data) > 1:
            data = data.iloc[rng.permutation(len(data))]             # the rows of a measurement table need not be sorted by time
        if intidx:
            data.index = pd.Index(np.asarray(data.index).astype(np.int64), name='time')
        meas_objs.append(_wrap_measurement(m, cls_name, data, sidx, rec, rng))
    if not meas_objs and task["form"] == "none":
        meas_arg = None
    else:
        meas_arg = meas_objs

    # ---- probes on the integrator, kalman and the sensor models
    BaseInt = strapdown.Integrator
    state = {"last_adv": None}

    class RecInt(BaseInt):
        def integrate(self, increments):
            t0 = float(self.get_time())
            fl = state.get("flow")
            psnap = fl.snapshot(t0) if fl is not None else 0
            inc_ok = fl.on_increments(increments, state.get("raw_incs")) if fl is not None else True
            out = BaseInt.integrate(self, increments)
            state["batch"] = increments
            line = dict(a="A", T=t0, batch=[float(x) for x in increments.index], T2=float(self.get_time()), dt=None, psnap=psnap, inc_ok=inc_ok)
            state["last_adv"] = line
            rec.advance(line)
            return out

        def predict(self, increment):
            out = BaseInt.predict(self, increment)
            rec.flags.add("predict")
            fl = state.get("flow")
            state["pred"] = dict(frm=float(self.get_time()), sdt=float(increment['dt']),
                                 ok=fl.on_predict(increment, state.get("raw_incs"), self.get_time()) if fl is not None else True)
            return out

        def set_pva(self, p):
            before = self.get_pva()
            fl = state.get("flow")
            setflow = fl.on_set_pva(before, p) if fl is not None else (True, True)
            BaseInt.set_pva(self, p)
            ln = rec.lines[-1] if rec.lines else None
            if ln is not None and ln["a"] == "M":
                ln["set"] += 1
                ln["set_bit"], ln["set_ok"] = setflow
                ln["set_alt_same"] = bool(np.float64(p['alt']).tobytes() == np.float64(before['alt']).tobytes())
                ln["set_vd"] = float(p['VD'])
                pr = state.get("pred")
                if pr is not None:
                    ln["pfrom"] = pr["frm"]
                    ln["psign"] = (pr["sdt"] > 0) - (pr["sdt"] < 0)
                    # ... and the predicted state is the state AT the epoch: T + (dt handed to predict) = the time the measurement models were asked for
                    reach = abs(pr["frm"] + pr["sdt"] - ln["t"]) <= 8 * float(np.spacing(max(abs(ln["t"]), abs(pr["frm"]), 1.0))) + 1e-9 * abs(pr["sdt"])
                    if not reach and fl is not None:
                        fl.note("predict was handed an interval of %.9g s from T = %.9g although the measurement epoch is %.9g" % (pr["sdt"], pr["frm"], ln["t"]))
                    ln["pred_ok"] = bool(pr.get("ok", True)) and bool(reach)
            else:
                rec.flags.add("set_pva_outside_measurement")

    orig = dict(correct=kalman.correct, cpm=kalman.compute_process_matrices, Int=strapdown.Integrator)

    def correct(x, P, z, H, R):
        xin = np.array(x, dtype=float, copy=True); Pin = np.array(P, dtype=float, copy=True)
        out = orig["correct"](x, P, z, H, R)
        ln = rec.lines[-1] if rec.lines else None
        fl = state.get("flow")
        if ln is not None and ln["a"] == "M":
            ln["corr"] = ln.get("corr", 0) + 1
            if fl is not None:
                ln["c"].append(fl.on_correct(ln["last"], xin, Pin, z, H, R, out))
        else:
            rec.flags.add("correct_outside_measurement")
        return out

    def cpm(F, Q, dt):
        fl = state.get("flow")
        pva_avg = state.pop("interp_ret", None)
        if kind == "fb":
            state.pop("interp", None)
        if kind == "ff":
            ip = state.pop("interp", None)
            ln = dict(a="A", dt=float(dt), T=ip[0] if ip else None, T2=ip[1] if ip else None)
            if fl is not None:
                ln["psnap"] = fl.snapshot(ip[0] if ip else float("nan"))
            rec.advance(ln)
        else:
            ln = state["last_adv"]
            if ln is not None and ln["dt"] is None:
                ln["dt"] = float(dt)
            else:
                rec.flags.add("propagation_without_integrate")
                ln = None
        out = orig["cpm"](F, Q, dt)
        if fl is not None and ln is not None:
            if pva_avg is not None and ln.get("T") is not None and ln.get("T2") is not None and ln["T2"] != ln["T"]:
                TH, DV = ['theta_x', 'theta_y', 'theta_z'], ['dv_x', 'dv_y', 'dv_z']
                if kind == "fb":
                    b = state.get("batch")
                else:
                    b = state.get("incs")
                    if b is not None:
                        b = b[(b.index > ln["T"]) & (b.index <= ln["T2"])]
                span = ln["T2"] - ln["T"]
                ga = None if b is None else b[TH].sum(axis=0) / span
                aa = None if b is None else b[DV].sum(axis=0) / span
                ln.update(fl.on_system(F, Q, pva_avg, ga, aa))
            ln.update(fl.on_propagate(dt, out[0], out[1], ln.get("T"), ln.get("T2")))
        return out

    has_interp = hasattr(filters, "_interpolate_pva")
    orig_interp = getattr(filters, "_interpolate_pva", None)

    def interp(first, second, alpha):
        state["interp"] = (float(first.name), float(second.name), float(alpha))
        state["interp_args"] = (first, second)
        ret = orig_interp(first, second, alpha)
        state["interp_ret"] = ret
        return ret

    EM = m["inertial_sensor"].EstimationModel
    orig_upd, orig_reset = EM.update_estimates, EM.reset_estimates

    def upd(self, x):
        ln = rec.lines[-1] if rec.lines else None
        if ln is not None and ln["a"] == "M":
            fl = state.get("flow")
            if fl is not None and ln["upd"] < 2:
                ln["upd_ok"] = bool(ln.get("upd_ok", True) and fl.on_update(ln["upd"], x))
            ln["upd"] += 1
        rec.est_updates += 1
        return orig_upd(self, x)

    def reset(self):
        rec.resets += 1
        return orig_reset(self)

    def warm_up(call):
        """The SAME measurement and sensor-model objects were already used by an earlier filter run (another time step): whatever a run
        leaves behind in them must not change the next one (seeded changes C10_8, C19_8: a look-up cursor inside Measurement).  The
        observed run is the second one; the first is executed under the same probes and then forgotten."""
        try:
            call()
        except BaseException:
            pass
        rec.lines.clear()
        rec.n_adv = rec.n_meas = rec.est_updates = rec.resets = 0
        rec.flags = set()
        rec.flow = None
        state.clear()
        state["last_adv"] = None

    exc = ""
    res = None
    kalman.correct, kalman.compute_process_matrices, strapdown.Integrator = correct, cpm, RecInt
    EM.update_estimates, EM.reset_estimates = upd, reset
    if has_interp:
        filters._interpolate_pva = interp
    rec.state = state
    try:
        if kind == "fb":
            incs = make_increments(m, start, task["imu"], rng,
                                   index=pd.Index(np.asarray(task["imu"]).astype(np.int64), name='time') if intidx else None)
            if task.get("rerun"):
                warm_up(lambda: filters.run_feedback_filter(pva, 1.0, 0.1, 0.1, 1.0, incs, gm, am, meas_arg,
                                                            time_step=task["step"] * 2, with_altitude=task["alt"]))
            flow = Flow(m, kind, task["alt"], gm, am, (1.0, 0.1, 0.1, 1.0))
            flow.start(pva)
            flow.names = [c for c, _ in task["meas"]]
            state["flow"] = rec.flow = flow
            state["raw_incs"] = incs
            res = filters.run_feedback_filter(pva, 1.0, 0.1, 0.1, 1.0, incs, gm, am, meas_arg,
                                              time_step=task["step"], with_altitude=task["alt"])
        else:
            times = np.asarray(task["imu"], dtype=float)
            n = len(times)
            traj = pd.DataFrame(np.tile(pva.values, (n, 1)) + 1e-6 * rng.randn(n, 9) * [1, 1, 1e5, 1e4, 1e4, 1e4, 1e3, 1e3, 1e3],
                                index=pd.Index(times.astype(np.int64) if intidx else times, name='time'), columns=list(pva.index))
            if not task["alt"]:
                traj['VD'] = task.get("vd0", 0.0) * 1.0
            # the nominal (reference) trajectory differs NOTICEABLY from the computed one (covariance-analysis mode): whatever is
            # evaluated "at the nominal trajectory" must not silently be evaluated at the computed one (seeded change C11_3)
            nominal = traj + 1e-7
            off = dict(VN=0.4, VE=-0.3, roll=0.8, pitch=-0.6, heading=1.5)
            for c_, v_ in off.items():
                nominal[c_] = nominal[c_] + v_
            if task["alt"]:
                nominal['VD'] = nominal['VD'] + 0.2
            incs = make_increments(m, times[0], times[1:], rng) if task.get("inc") else None
            if incs is None and task["models"] in ("full", "asym"):
                gm, am = make_models(m, "bias", rng)
            if task.get("rerun"):
                warm_up(lambda: filters.run_feedforward_filter(nominal, traj, 1.0, 0.1, 0.1, 1.0, gm, am, meas_arg, incs,
                                                               time_step=task["step"] * 2, with_altitude=task["alt"]))
            flow = Flow(m, kind, task["alt"], gm, am, (1.0, 0.1, 0.1, 1.0))
            flow.start(nominal.iloc[0])
            flow.names = [c for c, _ in task["meas"]]
            state["flow"] = rec.flow = flow
            state["incs"] = incs
            res = filters.run_feedforward_filter(nominal, traj, 1.0, 0.1, 0.1, 1.0, gm, am, meas_arg, incs,
                                                 time_step=task["step"], with_altitude=task["alt"])
    except Diverged as e:
        exc = "Diverged: %s" % e
    except BaseException as e:
        exc = "%s: %s" % (type(e).__name__, str(e)[:200])
    finally:
        kalman.correct, kalman.compute_process_matrices, strapdown.Integrator = orig["correct"], orig["cpm"], orig["Int"]
        EM.update_estimates, EM.reset_estimates = orig_upd, orig_reset
        if has_interp:
            filters._interpolate_pva = orig_interp

    for ln in rec.lines:
        ln.pop("last", None)
    obs = dict(returned=res is not None, exc=exc, flags=sorted(rec.flags), resets=rec.resets)
    if res is not None:
        tr = res.trajectory
        obs["traj"] = [float(x) for x in tr.index]
        obs["tables"] = [[float(x) for x in res[k].index] for k in ("trajectory_sd", "gyro", "gyro_sd", "accel", "accel_sd")]
        names = [c for c, _ in task["meas"]]
        obs["innov"] = [[float(x) for x in res.innovations[c].index] if c in res.innovations else None for c in names]
        obs["innov_w"] = [int(res.innovations[c].shape[1]) if c in res.innovations else -1 for c in names]
        obs["innov_keys"] = sorted(res.innovations.keys())
        obs["finite"] = _finite_tables(m, res)
        sd = res.trajectory_sd
        obs["sd_down_vd_zero"] = bool((sd['down'].values == 0.0).all() and (sd['VD'].values == 0.0).all())
        obs["sd_cols"] = list(sd.columns)
        if kind == "fb":
            plain = orig["Int"](pva, task["alt"])
            plain.integrate(incs)
            pt = plain.trajectory
            obs["plain_eq"] = bool(pt.shape == tr.shape and (np.asarray(pt.index) == np.asarray(tr.index)).all()
                                   and list(pt.columns) == list(tr.columns)
                                   and (pt.values.view(np.int64) == tr.values.view(np.int64)).all())
            obs["vd_zero"] = bool((tr['VD'].values == 0.0).all())
            obs["alt_frozen"] = bool((tr['alt'].values.view(np.int64) == np.float64(pva['alt']).view(np.int64)).all())
        else:
            obs["vd_zero"] = bool((tr['VD'].values.view(np.int64) == traj.loc[tr.index, 'VD'].values.view(np.int64)).all())
            obs["alt_frozen"] = bool((tr['alt'].values.view(np.int64) == traj.loc[tr.index, 'alt'].values.view(np.int64)).all()) \
                if set(tr.index) <= set(traj.index) else False
    flow = state.get("flow")
    if res is not None and flow is not None:
        fin = flow.finish(res, res.trajectory if kind == "fb" else nominal, None if kind == "fb" else traj)
        obs["flow"] = dict(fin, p0id=flow.p0id, p0_bit=flow.p0_bit, p0_ok=flow.p0_close, notes=flow.notes)
    out = dict(task=task, events=rec.lines, obs=obs)
    if flow is not None and flow.error:
        obs.pop("flow", None)                    # the dataflow observer broke: its verdicts are void (and the run is a machinery error)
        for ln in rec.lines:
            for k in ("c", "set_ok", "set_bit", "upd_ok", "pred_ok", "psnap", "pexp", "dt_ok", "dt_bit", "fq_ok", "fq_bit"):
                ln.pop(k, None)
        out["harness_error"] = flow.error
    return out


# ---------------------------------------------------------------------------------------------
# A1: rank abstraction

def horizons(points, step):
    """float(t) + time_step exactly as the code computes it (np.float64 + python float)."""
    return [float(np.float64(t) + step) for t in points]


def _flow_obs(f):
    if not f:
        return dict(on=False, p0id=0, p0_ok=True, p0_bit=True, sd_ok=True, est_ok=True, comp_ok=True, rows_ok=True, innov_ok=True)
    return dict(on=True, p0id=int(f["p0id"]), p0_ok=f["p0_ok"] is not False, p0_bit=f["p0_bit"] is not False, sd_ok=bool(f["sd_ok"]),
                est_ok=bool(f["est_ok"]), comp_ok=bool(f["comp_ok"]), rows_ok=bool(f["rows_ok"]), innov_ok=bool(f.get("innov_ok", True)))


def abstract_record(rec, tid):
    """Replace every stamp of a record by its rank in the sorted set of all stamps of the run."""
    task, obs = rec["task"], rec["obs"]
    kind = task["kind"]
    points = ([task["start"]] if kind == "fb" else []) + list(task["imu"])
    hz = horizons(points, task["step"])
    universe = set(points) | set(hz)
    for _, st in task["meas"]:
        universe |= set(st)
    for ln in rec["events"]:
        for k in ("t", "T", "T2", "pfrom", "row", "nrow"):
            if ln.get(k) is not None:
                universe.add(ln[k])
        universe |= set(ln.get("batch", []))
    if obs.get("returned"):
        universe |= set(obs["traj"])
        for tb in obs["tables"]:
            universe |= set(tb)
        for iv in obs["innov"]:
            universe |= set(iv or [])
    if any(isinstance(x, float) and (math.isnan(x) or math.isinf(x)) for x in universe):
        universe = {x for x in universe if not (math.isnan(x) or math.isinf(x))}
    order = sorted(universe)
    rank = {x: i + 1 for i, x in enumerate(order)}
    R = lambda x: rank.get(x, 999999)
    out = dict(tid=tid, kind=kind, alt=bool(task["alt"]), ns=len(task["meas"]), names=[c for c, _ in task["meas"]],
               start=R(points[0]), pts=[R(x) for x in points], hz=[R(x) for x in hz],
               meas=[sorted(R(x) for x in st) for _, st in task["meas"]],
               inct=sorted(R(x) for x in (task["imu"][1:] if task.get("inc") else [])) if kind == "ff" else [],
               returned=bool(obs.get("returned")), exc=obs.get("exc", ""))
    ev = []
    for ln in rec["events"]:
        if ln["a"] == "M":
            ev.append(dict(a="M", t=R(ln["t"]), hits=list(ln["hits"]), set=ln.get("set", 0), upd=ln.get("upd", 0),
                           corr=ln.get("corr", 0), psign=ln.get("psign", 1), pfrom=R(ln["pfrom"]) if ln.get("pfrom") is not None else 0,
                           vd0=bool(ln["vd"] == 0.0), setvd0=bool(ln.get("set_vd", 0.0) == 0.0), altsame=bool(ln.get("set_alt_same", True)),
                           row=R(ln["row"]) if ln.get("row") is not None else 0, nrow=R(ln["nrow"]) if ln.get("nrow") is not None else 0,
                           aok=bool(ln.get("aok", True)),
                           w=[w[0] for w in ln["widths"]], wok=all(w[0] == w[1] == w[2] == w[3] for w in ln["widths"]),
                           c=[dict(s=c["s"], pin=c["pin"], pout=c["pout"], xin=c["xin"], xout=c["xout"], pin_bit=c["pin_bit"], pin_ok=c["pin_close"],
                                   xin_ok=c["xin_ok"], xin_bit=c["xin_bit"], args_ok=c["args_ok"], out_ok=c.get("out_ok", True)) for c in ln.get("c", [])],
                           set_ok=bool(ln.get("set_ok", True)), set_bit=bool(ln.get("set_bit", True)), upd_ok=bool(ln.get("upd_ok", True)),
                           pva_ok=bool(ln.get("pva_ok", True)), pred_ok=bool(ln.get("pred_ok", True))))
        elif kind == "fb":
            ev.append(dict(a="A", T=R(ln["T"]), batch=[R(x) for x in ln["batch"]], T2=R(ln["T2"]),
                           dpos=bool(ln["dt"] is not None and ln["dt"] > 0),
                           psnap=int(ln.get("psnap", 0)), pexp=int(ln.get("pexp", 0)), dt_ok=ln.get("dt_ok") is not False, dt_bit=ln.get("dt_bit") is not False,
                           fq_ok=ln.get("fq_ok") is not False, fq_bit=ln.get("fq_bit") is not False, inc_ok=ln.get("inc_ok") is not False))
        else:
            ev.append(dict(a="A", dpos=bool(ln["dt"] > 0), T=R(ln["T"]) if ln.get("T") is not None else 0,
                           T2=R(ln["T2"]) if ln.get("T2") is not None else 0,
                           psnap=int(ln.get("psnap", 0)), pexp=int(ln.get("pexp", 0)), dt_ok=ln.get("dt_ok") is not False, dt_bit=ln.get("dt_bit") is not False,
                           fq_ok=ln.get("fq_ok") is not False, fq_bit=ln.get("fq_bit") is not False))
    out["events"] = ev
    if obs.get("returned"):
        out["obs"] = dict(traj=[R(x) for x in obs["traj"]], tables=[[R(x) for x in tb] for tb in obs["tables"]],
                          innov=[[R(x) for x in (iv or [])] for iv in obs["innov"]],
                          innov_missing=[iv is None for iv in obs["innov"]], innov_w=obs["innov_w"],
                          finite=bool(obs["finite"]), vd_zero=bool(obs["vd_zero"]), alt_frozen=bool(obs["alt_frozen"]),
                          sd_zero=bool(obs["sd_down_vd_zero"]), flags=obs["flags"], resets=obs["resets"],
                          plain_eq=bool(obs.get("plain_eq", True)), keys_ok=bool(obs["innov_keys"] == sorted(c for c, _ in task["meas"])),
                          flow=_flow_obs(obs.get("flow")))
    else:
        out["obs"] = dict(traj=[], tables=[[], [], [], [], []], innov=[[] for _ in task["meas"]],
                          innov_missing=[False for _ in task["meas"]], innov_w=[0 for _ in task["meas"]],
                          finite=False, vd_zero=False, alt_frozen=False, sd_zero=False, flags=obs.get("flags", []), resets=0,
                          plain_eq=False, keys_ok=False, flow=_flow_obs(None))
    return out
