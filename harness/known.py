"""known_findings.json: read-only at run time. A finding id suppresses a violation only while it is listed under `known`."""
import json, os
_PATH = os.path.join(os.path.dirname(os.path.dirname(os.path.abspath(__file__))), "known_findings.json")


def load():
    with open(_PATH) as f:
        d = json.load(f)
    return {e["id"]: e for e in d.get("known", [])}


def text(entry):
    return "%s: %s [input: %s]" % (entry["id"], entry["what"], entry["input"])
