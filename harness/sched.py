"""Random float schedules for trace validation (leg T) and the tick -> seconds map for replay (leg R)."""
import numpy as np

CLASSES = ["Position", "NedVelocity", "BodyVelocity"]
TICK = 0.125   # 2**-3 s: tick arithmetic is exact in floats, so t + step is what the model's Horizon says


def random_points(rng):
    base = rng.choice(["c001", "c01", "lin", "jit", "dyadic", "coarse"])
    n = int(rng.randint(2, 15))
    if base == "c001":
        pts = np.arange(n + 1) * 0.01
        dt = 0.01
    elif base == "c01":
        pts = np.arange(n + 1) * 0.1          # inexact: 0.7 + 0.1 < 0.8
        dt = 0.1
    elif base == "lin":
        dt = float(rng.choice([0.1, 0.05, 0.2]))
        pts = np.linspace(0, n * dt, n + 1)
    elif base == "jit":
        pts = np.hstack([0, np.cumsum(rng.uniform(0.02, 0.3, n))])
        dt = float(np.median(np.diff(pts)))
    elif base == "coarse":
        pts = np.arange(n + 1) * 1.0
        dt = 1.0
    else:
        pts = np.arange(n + 1) * 0.25
        dt = 0.25
    if rng.rand() < 0.4 and len(pts) > 4:            # data gap
        i = int(rng.randint(1, len(pts) - 2))
        k = int(rng.randint(1, min(5, len(pts) - i - 1) + 1))
        pts = np.delete(pts, slice(i, i + k))
    if rng.rand() < 0.5:
        pts = pts + float(rng.choice([100.0, 1234.5, 0.3, 86400.0, -7.25, -1000.0]))      # records need not start at zero (or be positive)
    return [float(x) for x in pts], dt


def _rounding_gaps():
    """Pairs (dt, i, j) on k*dt grids where float(t_i + (t_j - t_i)) != t_j: the interval length stored in an increments table
    does not lead from the previous stamp exactly onto the next one (only possible for t_j > 2 t_i: a gap early in a record)."""
    out = []
    for dt in (0.01, 0.05, 0.1, 0.2):
        for i in range(0, 25):
            for j in range(i + 2, i + 14):
                a, b = i * dt, j * dt
                if a + (b - a) != b:
                    out.append((dt, i, j, a + (b - a) < b))
    return out


ROUNDING_GAPS = _rounding_gaps()


def rounding_gap_points(rng):
    dt, i, j, _below = ROUNDING_GAPS[int(rng.randint(len(ROUNDING_GAPS)))]
    n_after = int(rng.randint(2, 8))
    pts = [k * dt for k in range(0, i + 1)] + [k * dt for k in range(j, j + n_after)]
    if len(pts) < 3:
        pts = [0.0] + pts if pts[0] > 0 else pts
    return [float(x) for x in pts], dt


def random_stamps(rng, pts, others):
    out = set()
    p = np.asarray(pts)
    span = p[-1] - p[0]
    for _ in range(int(rng.randint(1, 4))):
        mode = rng.choice(["on", "frac", "cluster", "shared", "outside", "edge", "near", "rounded", "twin"])
        if mode == "on":
            out |= {float(x) for x in rng.choice(p, size=min(len(p), int(rng.randint(1, 4))), replace=False)}
        elif mode == "frac":
            for _ in range(int(rng.randint(1, 4))):
                i = int(rng.randint(0, len(p) - 1))
                out.add(float(p[i] + rng.choice([0.5, 0.25, 0.1, 0.9, 1e-9, 0.999999]) * (p[i + 1] - p[i])))
        elif mode == "near":
            # float noise around a row stamp: one ulp / 1e-12 / 1e-10 below or above it (a logged 0.3 next to a row 0.30000000000000004)
            for _ in range(int(rng.randint(1, 4))):
                i = int(rng.randint(1, len(p)))
                eps = float(rng.choice([0.0, 1e-12, 1e-10])) * max(1.0, abs(p[i]))
                lo = float(np.nextafter(p[i], -np.inf)) if eps == 0.0 else float(p[i] - eps)
                hi = float(np.nextafter(p[i], np.inf)) if eps == 0.0 else float(p[i] + eps)
                out.add(lo if rng.rand() < 0.7 else hi)
        elif mode == "rounded":
            # the same epochs as some rows, but written with few decimals
            for x in rng.choice(p, size=min(len(p), int(rng.randint(1, 4))), replace=False):
                out.add(float(round(float(x), int(rng.choice([1, 2, 3])))))
        elif mode == "cluster":
            i = int(rng.randint(0, len(p) - 1))
            k = int(rng.randint(2, 6))
            out |= {float(p[i] + f * (p[i + 1] - p[i])) for f in np.sort(rng.uniform(0.0, 1.0, k))}
            if rng.rand() < 0.3:
                out.add(float(p[i]))
        elif mode == "twin":
            # two MEASUREMENT stamps that agree up to float noise without being bit-identical - of another sensor (k * 0.1 next to
            # k * 0.3 / 3) or of this sensor itself: they are two epochs, and both samples are processed (seeded change C11_4)
            pool_ = sorted(set(out) | {x for o in others for x in o})
            if not pool_:
                pool_ = [float(p[int(rng.randint(1, len(p)))] - 0.3 * (p[1] - p[0]))]
                out.add(pool_[0])
            for x in rng.choice(pool_, size=min(len(pool_), int(rng.randint(1, 3))), replace=False):
                x = float(x)
                eps = float(rng.choice([0.0, 1e-12, 2e-10])) * max(1.0, abs(x))
                out.add((float(np.nextafter(x, np.inf)) if rng.rand() < 0.5 else float(np.nextafter(x, -np.inf))) if eps == 0.0 else
                        (x + eps if rng.rand() < 0.5 else x - eps))
        elif mode == "shared" and others:
            src = others[int(rng.randint(len(others)))]
            if src:
                out |= set(rng.choice(sorted(src), size=min(len(src), 2), replace=False).tolist())
        elif mode == "outside":
            out |= {float(p[0] - rng.uniform(0.01, 2) * max(span, 0.1)), float(p[-1] + rng.uniform(0.01, 2) * max(span, 0.1))}
        else:
            out |= {float(p[0]), float(p[-1])} if rng.rand() < 0.5 else {float(p[-2] + 0.5 * (p[-1] - p[-2])), float(p[-2] + 0.75 * (p[-1] - p[-2]))}
    return sorted(out)


def with_baro(rng, meas, alt):
    """The filters accept user-written Measurement subclasses (documented extension point): in a third of the 3D runs one sensor
    is a SCALAR barometric altitude measurement defined by the harness (filt.BaroAltitude): one-row z, H, R, results keyed by its
    own class name.  (Only with altitude: without it there is no altitude state to observe.)"""
    if alt and meas and rng.rand() < 0.35:
        meas[int(rng.randint(len(meas)))][0] = "BaroAltitude"


def without_baro(task):
    """For runs that are switched to 2D after they were drawn (C13)."""
    task["meas"] = [[c, st] for c, st in task["meas"] if c != "BaroAltitude"]


def random_task(rng, kind, seed):
    pts, dt = rounding_gap_points(rng) if rng.rand() < 0.12 else random_points(rng)
    span = pts[-1] - pts[0]
    ns = int(rng.choice([0, 1, 1, 2, 2, 3]))
    names = list(rng.permutation(CLASSES)[:ns])
    meas, others = [], []
    for c in names:
        st = random_stamps(rng, pts, others)
        others.append(st)
        meas.append([str(c), st])
    step = float(rng.choice([0.3 * dt, dt, 0.1, 1.0, 10 * span + 1, dt * (1 + 1e-12), 2.5 * dt, dt / 7]))
    alt = bool(rng.rand() < 0.5)
    with_baro(rng, meas, alt)
    models = str(rng.choice(["none", "default", "bias", "full", "asym", "tiny"]))
    t = dict(kind=kind, start=pts[0], imu=pts[1:] if kind == "fb" else pts, meas=meas, step=step, alt=alt,
             models=models, form=str(rng.choice(["list", "none", "empty"])), seed=int(seed),
             vd0=float(rng.choice([0.0, 3.0, -1.5])) if not alt else float(rng.choice([0.0, 0.5])),
             inc=bool(models in ("full", "asym") or rng.rand() < 0.4), far=bool(rng.rand() < 0.25), shuffle=bool(rng.rand() < 0.5), intidx=bool(rng.rand() < 0.3), perm=bool(rng.rand() < 0.25), rerun=bool(rng.rand() < 0.25))
    return t


def task_from_cfg(kind, cfg, seed, rng):
    """A TLC configuration on the tick grid -> task in seconds (tick * 2^-3, exact)."""
    if kind == "fb":
        pts = [cfg["start"]] + list(cfg["imu"])
        step = cfg["hz"][0] - cfg["start"]
    else:
        pts = list(cfg["times"])
        step = cfg["hz"][0] - pts[0]
    ns = len(cfg["meas"])
    names = list(rng.permutation(CLASSES)[:ns])
    meas = [[str(names[s]), [TICK * t for t in sorted(cfg["meas"][s])]] for s in range(ns)]
    alt = bool(rng.rand() < 0.5)
    with_baro(rng, meas, alt)
    models = str(rng.choice(["none", "default", "bias", "full", "asym", "tiny"]))
    return dict(kind=kind, start=TICK * pts[0], imu=[TICK * t for t in (pts[1:] if kind == "fb" else pts)], meas=meas,
                step=TICK * step, alt=alt, models=models, form=str(rng.choice(["list", "none", "empty"])), seed=int(seed),
                vd0=float(rng.choice([0.0, 3.0])) if not alt else 0.0, inc=bool(models in ("full", "asym") or rng.rand() < 0.4), far=bool(rng.rand() < 0.25), shuffle=bool(rng.rand() < 0.5), intidx=bool(rng.rand() < 0.3), perm=bool(rng.rand() < 0.25), rerun=bool(rng.rand() < 0.25))


def corner_tasks(kind):
    """Fixed schedules: every counterexample of DESIGN.md s7 (F1-F4) in float form, plus boundary cases."""
    out = []
    def T(pts, meas, step, **kw):
        d = dict(kind=kind, start=float(pts[0]), imu=[float(x) for x in (pts[1:] if kind == "fb" else pts)],
                 meas=[[c, [float(x) for x in st]] for c, st in meas], step=float(step), alt=True, models="default",
                 form="list", seed=len(out) + 1, vd0=0.0, inc=False)
        d.update(kw)
        out.append(d)
    T([0, 1, 2, 3, 4, 5], [], 10.0, form="none")                                   # F1
    T([0, 1, 2, 3, 4, 5], [], 10.0, form="empty", models="none")                   # F1
    T([0, 1, 2, 3, 4, 5], [("Position", [4.25]), ("NedVelocity", [4.5])], 10.0)    # F2
    T([0, 2], [("Position", [0, 1])], 2.0)                                          # F2 minimal (TLC counterexample)
    T([0, 1, 2, 3, 4, 5], [("Position", [2.25, 2.5, 2.75])], 10.0)                  # F2b
    T([0, 1, 2, 3, 4, 5], [("Position", [2.0, 2.25, 2.5])], 0.5, alt=False, vd0=2.0)  # F2b on the epoch
    T([0, 1, 2, 5, 6], [("Position", [1.0])], 1.0)                                  # F3: gap > step
    T([float(x) for x in np.arange(0, 3, .1)], [("Position", [1.0])], 0.1, inc=True, models="full")   # F3: default step on 10 Hz
    T([float(x) for x in np.linspace(0, 2, 21)], [], 0.1, form="none")              # F3 + F1
    T([0, 2, 4, 6], [("Position", [2.5, 3.0, 3.5])], 10.0, inc=True, models="full")  # F4
    T([0, 2, 4, 6], [("Position", [4.5, 5.0]), ("BodyVelocity", [5.0, 5.5])], 1.0)  # F4/F2 in the last interval
    T([0, 1, 2, 3], [("Position", [-1.0, 0.0, 3.0, 4.0])], 1.0)                     # before start, at start, at end, after end
    T([0, 1], [("Position", [0.5])], 0.1)                                           # single increment
    T([0, 1, 2, 3], [("NedVelocity", [1.0, 2.0]), ("Position", [1.0, 2.0]), ("BodyVelocity", [2.0])], 1.0, alt=False, vd0=1.0)
    T([10, 10.5, 11, 11.5, 12], [("BodyVelocity", [10.25, 10.75, 11.25, 11.75])], 0.05, alt=False, models="bias")
    T([0, 1e-3, 2e-3, 3e-3], [("Position", [1.5e-3])], 1e-4)                        # step far below the interval
    T([k * 0.05 for k in range(21) if not (0.10 < k * 0.05 < 0.45)], [("Position", [0.30, 0.52, 0.70, 5.0])], 0.1)   # gap where t + dt rounds below the next stamp
    T([0.0, 0.1, 0.2, 0.7000000000000001, 0.8, 0.9], [], 0.05, form="none")                                    # the same, no measurements
    T([0, 1, 2, 3, 4, 5, 6], [("Position", [4, 2, 5]), ("NedVelocity", [3, 0, 2])], 2, intidx=True, shuffle=True)   # integer-typed, unsorted rows
    T([10, 11, 13, 14, 20], [("BodyVelocity", [13, 10, 20])], 1, intidx=True, shuffle=True, alt=False, vd0=1.0)
    return out
