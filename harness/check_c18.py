"""C18: state differencing, resampling and perturbation obey their algebra.

Leg M  StateDiff.tla: all ordered pairs of tables over the tick grid 0..MaxT (quick 4, thorough 5) x five column-set pairs, for seven
       signal-family pairs (parallel TLC processes); exact integer algebra; invariants SelfZero, ZeroAtKnots, SubsampleZero, IndexRule,
       Antisymmetric, AngleRange, ResampleAtKnots, ResampleLinear; ASSUME WrapCongruentLaw (all integers/half-integers in +-1080).
Leg R  every pair TLC printed (quick: a seeded sample + all nested pairs) is built as real DataFrames (tick = 0.25 s) and
       compute_state_difference (both argument orders), resample_state, Series pairs are compared with the exact expectation:
       index ==, columns ==, values A4 (exact 0.0 where the zero clauses apply), metres through the closed-form radii at the
       mean latitude/altitude, angles in (-180, 180].  to_180_range is compared with the specification's Wrap180 table in
       every argument form.  perturb_pva then difference recovers the error.
Known findings F6, F8, F9 (known_findings.json) are matched by predicate and printed, anything else is a violation.
"""
import json, math
from concurrent.futures import ThreadPoolExecutor
import numpy as np
from . import tlc, filt, pool, known

INV = ["SelfZero", "ZeroAtKnots", "SubsampleZero", "IndexRule", "Antisymmetric", "AngleRange", "ResampleAtKnots", "ResampleLinear"]
SIG_PAIRS = [(1, 1), (2, 2), (1, 2), (2, 1), (3, 4), (4, 3), (3, 3)]
TICK = 0.25
OFFSETS = (0.0, 0.0, 345600.0, 1073741824.0)     # absolute time of tick 0: zero, second of week, epoch-like (all exact in binary)
_off = [0.0]


def tm(t):
    """tick -> seconds. The algebra of C18 does not depend on where the time axis starts; tolerances scaled by |t| do
    (seeded change C18_6: an np.allclose 'same grid' shortcut in resample_state)."""
    return _off[0] + TICK * t
K = 60.0
RPH = ("roll", "pitch", "heading")
LLA = ("lat", "lon", "alt")
WGS_A = 6378137.0
WGS_E2 = 6.6943799901413e-3
BASE = {"lat": 50.0, "lon": 30.0}
UNIT = 1e-3      # lat/lon signal values are offsets in milli-degrees (about 111 m): tables differ by up to ~0.05 deg


def radii(lat, alt):
    s = math.sin(math.radians(lat))
    x = 1 - WGS_E2 * s * s
    re = WGS_A / math.sqrt(x)
    rn = re * (1 - WGS_E2) / x
    return rn + alt, (re + alt) * math.sqrt(1 - s * s)


def wrap_in(h):
    """A heading in (-180, 180] congruent to the integer ramp value (how the tables store it)."""
    w = ((h + 180) % 360) - 180
    return 180.0 if w == -180 else float(w)


def to_real(col, v):
    if col in BASE:
        return BASE[col] + v * UNIT
    if col == "heading":
        return wrap_in(v)
    return float(v)


def build(pd, idx, cols, vals):
    data = {c: [to_real(c, vals[k][j]) for k in range(len(idx))] for j, c in enumerate(cols)}
    return pd.DataFrame(data, index=[tm(t) for t in idx], columns=list(cols))


def angle_close(x, y, tol=1e-9):
    d = (x - y) % 360.0
    return min(d, 360.0 - d) <= tol


def out_name(c, has_lla):
    return {"lat": "north", "lon": "east", "alt": "down"}[c] if (has_lla and c in LLA) else c


def expected_value(c, cols, row, has_lla, has_rph):
    """row: list of (f, g, dk) per column (K-scaled integers). Returns (expected value, kind)."""
    j = cols.index(c)
    f, g, dk = row[j]
    if c in LLA and has_lla:
        jl, ja = cols.index("lat"), cols.index("alt")
        lat_m = 0.5 * ((BASE["lat"] + row[jl][0] / K * UNIT) + (BASE["lat"] + row[jl][1] / K * UNIT))
        alt_m = 0.5 * (row[ja][0] / K + row[ja][1] / K)
        rn, rp = radii(lat_m, alt_m)
        if c == "lat":
            return math.radians(dk / K * UNIT) * rn, "metres"
        if c == "lon":
            return math.radians(dk / K * UNIT) * rp, "metres"
        return -dk / K, "plain"
    if c in BASE:
        return dk / K * UNIT, "deg"
    if c in RPH and has_rph:
        return dk / K, "angle"
    if c == "heading":
        return None, "partial-rph"
    return dk / K, "plain"


def replay_pair(m, line):
    """Returns list of (category, text); category in violation | F6 | F8 | F9."""
    pd, T = m["pd"], m["transform"]
    import zlib
    _off[0] = OFFSETS[zlib.crc32(line.encode()) % len(OFFSETS)]
    v = tlc.parse_value(line)
    (aidx, asig, acols, avals, bidx, bsig, bcols, bvals, sign, dindex, dcols, dvals, resampled, same, nested, f9, ranked, rindex) = v
    acols, bcols, dcols = list(acols), list(bcols), list(dcols)
    A = build(pd, aidx, acols, avals)
    B = build(pd, bidx, bcols, bvals)
    snapA, snapB = A.copy(), B.copy()
    out = []
    tag = "a=%s sig%d %s, b=%s sig%d %s" % (list(aidx), asig, acols if len(acols) < 8 else "all-cols", list(bidx), bsig, bcols if len(bcols) < 8 else "all-cols")
    common = set(dcols)
    has_lla = all(c in common for c in LLA)
    has_rph = all(c in common for c in RPH)
    partial = bool(common & set(RPH)) and not has_rph
    # ---------------- compute_state_difference(A, B)
    D = None
    try:
        D = T.compute_state_difference(A, B)
    except KeyError as e:
        out.append(("F8" if partial else "violation", "compute_state_difference raised KeyError(%s) for %s" % (e, tag)))
    except Exception as e:
        out.append(("violation", "compute_state_difference raised %s: %s for %s" % (type(e).__name__, str(e)[:100], tag)))
    if not (A.equals(snapA) and B.equals(snapB)):
        out.append(("violation", "compute_state_difference modified its arguments for %s" % tag))
    if D is not None:
        exp_index = [tm(t) for t in dindex]
        exp_cols = [out_name(c, has_lla) for c in dcols]
        if list(D.index) != exp_index:
            out.append(("violation", "difference index %s, expected %s (%s)" % (list(D.index), exp_index, tag)))
        elif list(D.columns) != exp_cols:
            out.append(("violation", "difference columns %s, expected %s (%s)" % (list(D.columns), exp_cols, tag)))
        else:
            second_idx = set(bidx) if sign == 1 else set(aidx)      # the interpolated table's knots
            zero_clause = same or nested
            f9_hit = False
            for k, t in enumerate(dindex):
                for j, c in enumerate(dcols):
                    got = float(D.iloc[k, j])
                    exp, kind = expected_value(c, dcols, dvals[k], has_lla, has_rph)
                    if kind == "partial-rph":
                        continue
                    if kind == "angle":
                        ok = angle_close(got, exp)
                        if not (-180.0 < got <= 180.0):
                            out.append(("violation", "angle difference %r outside (-180, 180] at t=%s column %s (%s)" % (got, t, c, tag)))
                    elif kind == "metres":
                        ok = abs(got - exp) <= 1e-6 * abs(exp) + 1e-6
                    else:
                        ok = abs(got - exp) <= 1e-9 * max(1.0, abs(exp))
                    if not ok:
                        out.append(("violation", "difference[%s, %s] = %r, exact value %r (%s)" % (t, out_name(c, has_lla), got, exp, tag)))
                        continue
                    if zero_clause and got != 0.0:
                        if f9 and t not in second_idx:
                            f9_hit = True
                        elif c in RPH and abs(got) <= 1e-9:
                            out.append(("F6", "self/sub-sample difference of %s is %.3g deg, not exactly 0" % (c, got)))
                        else:
                            out.append(("violation", "difference of a table and %s is %r at t=%s column %s, must be exactly 0 (%s)"
                                        % ("itself" if same else "a sub-sampling of itself", got, t, out_name(c, has_lla), tag)))
            if f9_hit:
                out.append(("F9", "median-gap ranking interpolates the sub-sampled table: non-zero at stamps it lacks (%s)" % tag))
        # antisymmetry on the real function
        if ranked:
            try:
                D2 = T.compute_state_difference(B, A)
                if list(D2.index) != list(D.index) or set(D2.columns) != set(D.columns):
                    out.append(("violation", "d(a,b) and d(b,a) have different index/columns although one table is denser (%s)" % tag))
                else:
                    for c in D.columns:
                        x, y = D[c].values, D2[c].values
                        okk = all(angle_close(float(p), -float(q)) for p, q in zip(x, y)) if (c in RPH and has_rph) \
                            else bool(np.all(np.abs(x + y) <= 1e-9 * np.maximum(1.0, np.abs(x))))
                        if not okk:
                            out.append(("violation", "d(a,b) != -d(b,a) in column %s (%s)" % (c, tag)))
            except KeyError:
                pass
            except Exception as e:
                out.append(("violation", "compute_state_difference(b, a) raised %s (%s)" % (type(e).__name__, tag)))
    # ---------------- resample_state(A, times)
    maxt = max(resampled)
    rng = np.random.RandomState(hash((tuple(aidx), asig, tuple(bidx))) % (2 ** 31))
    ticks = list(range(-1, maxt + 2)) + [int(aidx[0])]
    rng.shuffle(ticks)
    times = [tm(t) for t in ticks]
    partial_a = bool(set(acols) & set(RPH)) and not all(c in acols for c in RPH)
    try:
        # the requested times in the forms array_like admits: list, ndarray, pandas Index (e.g. the index of another table) - unsorted,
        # with duplicates and points outside the span; whatever the form, the caller's object must come back untouched (seeded change C19_9)
        form = int(rng.randint(3))
        targ = times if form == 0 else np.array(times) if form == 1 else pd.Index(np.array(times))
        tsnap = list(times)
        Rs = T.resample_state(A, targ)
        if list(np.asarray(targ)) != tsnap:
            out.append(("violation", "resample_state reordered / modified the `times` object it was given (%s, %s)" % (type(targ).__name__, tag)))
        exp_ticks = sorted(t for t in ticks if aidx[0] <= t <= aidx[-1])
        if list(Rs.index) != [tm(t) for t in exp_ticks]:
            out.append(("violation", "resample_state index %s, expected %s (%s)" % (list(Rs.index), exp_ticks, tag)))
        elif list(Rs.columns) != acols:
            out.append(("violation", "resample_state changed the column order: %s vs %s" % (list(Rs.columns), acols)))
        else:
            rph_a = all(c in acols for c in RPH)
            for k, t in enumerate(exp_ticks):
                for j, c in enumerate(acols):
                    got = float(Rs.iloc[k, j])
                    if c == "heading":
                        exp = resampled[t][j] / K
                        ok = angle_close(got, exp)
                    elif c in BASE:
                        exp = BASE[c] + resampled[t][j] / K * UNIT
                        ok = (got == exp) if t in aidx else abs(got - exp) <= 1e-12
                    else:
                        exp = resampled[t][j] / K
                        ok = (got == exp) if (t in aidx and not (c in RPH and rph_a)) else abs(got - exp) <= 1e-9 * max(1.0, abs(exp))
                    if not ok:
                        out.append(("violation", "resample_state[%s, %s] = %r, exact value %r (%s)" % (t, c, got, exp, tag)))
    except KeyError as e:
        out.append(("F8" if partial_a else "violation", "resample_state raised KeyError(%s) for columns %s" % (e, acols)))
    except Exception as e:
        out.append(("violation", "resample_state raised %s: %s (%s)" % (type(e).__name__, str(e)[:100], tag)))
    # ---------------- Series pair (one-row case, no swap)
    if set(acols) == set(bcols) and len(acols) == 8 and acols == bcols:
        i, j = int(rng.randint(len(aidx))), int(rng.randint(len(bidx)))
        try:
            S = T.compute_state_difference(A.iloc[i], B.iloc[j])
            for jc, c in enumerate(acols):
                va, vb = avals[i][jc], bvals[j][jc]
                if c in RPH:
                    got = float(S[c])
                    if not angle_close(got, float(va - vb)) or not (-180.0 < got <= 180.0):
                        out.append(("violation", "Series difference of %s: %r, expected %r wrapped into (-180, 180]" % (c, got, va - vb)))
                elif c == "alt":
                    if float(S["down"]) != -(float(va) - float(vb)):
                        out.append(("violation", "Series difference down = %r, expected %r" % (float(S["down"]), -(va - vb))))
                elif c in BASE:
                    lat_m = BASE["lat"] + 0.5 * UNIT * (avals[i][acols.index("lat")] + bvals[j][acols.index("lat")])
                    alt_m = 0.5 * (avals[i][acols.index("alt")] + bvals[j][acols.index("alt")])
                    rn, rp = radii(lat_m, alt_m)
                    exp = math.radians((va - vb) * UNIT) * (rn if c == "lat" else rp)
                    got = float(S["north" if c == "lat" else "east"])
                    if abs(got - exp) > 1e-6 * abs(exp) + 1e-6:
                        out.append(("violation", "Series difference %s = %r m, expected %r m" % (c, got, exp)))
                else:
                    if float(S[c]) != float(va - vb):
                        out.append(("violation", "Series difference %s = %r, expected %r" % (c, float(S[c]), va - vb)))
        except Exception as e:
            out.append(("violation", "Series difference raised %s: %s" % (type(e).__name__, str(e)[:100])))
    return out, bool(nested), bool(f9), bool(same)


def wrap_forms(m, table):
    """to_180_range in every argument form against the specification's Wrap180 table (x in half-degrees)."""
    pd, util = m["pd"], m["util"]
    out = []
    xs = np.array([x / 2.0 for x, _ in table])
    ws = np.array([w / K for _, w in table])
    forms = {
        "ndarray": lambda: np.asarray(util.to_180_range(xs.copy())),
        "list": lambda: np.asarray(util.to_180_range(list(xs))),
        "Series": lambda: util.to_180_range(pd.Series(xs.copy())).values,
        "DataFrame": lambda: util.to_180_range(pd.DataFrame({"a": xs.copy(), "b": xs[::-1].copy()}))["a"].values,
        "scalar": lambda: np.array([float(util.to_180_range(float(x))) for x in xs[::37]]),
        "int-ndarray": lambda: np.asarray(util.to_180_range(np.arange(-1080, 1081))),
        "2d": lambda: np.asarray(util.to_180_range(xs.copy().reshape(-1, 1))).ravel(),
    }
    for name, f in forms.items():
        try:
            got = f()
            exp = ws[::37] if name == "scalar" else (ws[::2] if name == "int-ndarray" else ws)
            if len(got) != len(exp) or not np.array_equal(got.astype(float), exp):
                k = int(np.argmax(got.astype(float) != exp)) if len(got) == len(exp) else -1
                out.append("to_180_range(%s) disagrees with Wrap180 (first at index %d: %r vs %r)" % (name, k, got[k] if k >= 0 else None, exp[k] if k >= 0 else None))
        except Exception as e:
            out.append("to_180_range(%s) raised %s: %s" % (name, type(e).__name__, e))
    snap = xs.copy()
    util.to_180_range(xs)
    if not np.array_equal(xs, snap):
        out.append("to_180_range modified its ndarray argument")
    return out


def perturb_recovery(m, seed):
    pd, sim, T = m["pd"], m["sim"], m["transform"]
    out = []
    rng = np.random.RandomState(seed % (2 ** 31))
    cols = ['lat', 'lon', 'alt', 'VN', 'VE', 'VD', 'roll', 'pitch', 'heading']
    ecols = ['north', 'east', 'down', 'VN', 'VE', 'VD', 'roll', 'pitch', 'heading']
    for it in range(48):
        # longitudes: anywhere, next to the +-180 meridian on either side (an east error of some metres crosses it), and in the
        # 0..360 convention - the difference must recover the error wherever the state is (seeded change C18_8)
        lon = float(rng.randint(-179, 180)) if it < 40 else (179.99995, -179.99995, 180.0, -180.0, 200.0, 359.5, 179.9999, -179.9999)[it - 40]
        pva = pd.Series([float(rng.randint(-80, 81)), lon, float(rng.randint(0, 5000)),
                         float(rng.randint(-50, 51)), float(rng.randint(-50, 51)), float(rng.randint(-5, 6)),
                         float(rng.randint(-20, 21)), float(rng.randint(-20, 21)), float(rng.choice([175, -175, 0, 90, 179, -179]))], index=cols, name=3.0)
        err = pd.Series([float(x) for x in rng.randint(-100, 101, 3)] + [float(x) / 8 for x in rng.randint(-40, 41, 3)] +
                        [float(x) / 4 for x in rng.randint(-40, 41, 3)], index=ecols)
        snap = pva.copy(), err.copy()
        try:
            pert = sim.perturb_pva(pva, err)
            d = T.compute_state_difference(pert, pva)
        except Exception as e:
            out.append("perturb_pva / difference raised %s: %s" % (type(e).__name__, e))
            continue
        if not (pva.equals(snap[0]) and err.equals(snap[1])):
            out.append("perturb_pva modified its arguments")
        for c in ('VN', 'VE', 'VD'):
            if float(d[c]) != float(err[c]):
                out.append("difference after perturbation: %s = %r, error applied %r" % (c, float(d[c]), float(err[c])))
        for c in RPH:
            if not angle_close(float(d[c]), float(err[c])) or not (-180 < float(d[c]) <= 180):
                out.append("difference after perturbation: %s = %r, error applied %r" % (c, float(d[c]), float(err[c])))
        for c in ('north', 'east', 'down'):
            if abs(float(d[c]) - float(err[c])) > 1e-3 * abs(float(err[c])) + 1e-6:
                out.append("difference after perturbation: %s = %r m, error applied %r m (lat %s, lon %s)" % (c, float(d[c]), float(err[c]), pva.lat, pva.lon))
    return out


def shortest_arc(m, pairs):
    """pairs: list of (ia, ib, Rel integer matrix, trace) from Attitude.tla (kind "pair").  Two-row tables holding the level
    attitudes A and B (and other columns) are resampled at 1/4, 1/2, 3/4 of the interval: the attitude there must be D_t A with
    (D_t)^(1/t) = B A' about the same axis (trace(D_t) >= 1: the SHORT way) - the geodesic, whatever Euler angles it has."""
    pd, T = m["pd"], m["transform"]
    ANG = {0: 0.0, 1: 90.0, 2: 180.0, 3: -90.0}
    out = []
    cols_sets = (['VN', 'roll', 'pitch', 'heading'], ['lat', 'lon', 'alt', 'VN', 'VE', 'VD', 'roll', 'pitch', 'heading'], ['heading', 'pitch', 'roll', 'VN'])
    for k, (ia, ib, Rel, tr) in enumerate(pairs):
        if tr == -1:
            continue                  # a half turn: the shortest arc is not unique, nothing is demanded
        Rel = np.array(Rel, float)
        ra, ha, rb, hb = ANG[ia % 4], ANG[ia // 4], ANG[ib % 4], ANG[ib // 4]
        A = T.mat_from_rph([ra, 0.0, ha])
        cols = cols_sets[k % 3]
        base = dict(lat=50.0, lon=30.0, alt=100.0, VN=1.0, VE=-2.0, VD=0.5, pitch=0.0)
        t0 = (0.0, 345600.0)[k % 2]
        rows = []
        for r_, h_, dv in ((ra, ha, 0.0), (rb, hb, 8.0)):
            d = dict(base, roll=r_, heading=h_); d["VN"] += dv
            rows.append([d[c] for c in cols])
        tab = pd.DataFrame(rows, index=[t0, t0 + 4.0], columns=cols)
        try:
            Rs = T.resample_state(tab, [t0 + 1.0, t0 + 2.0, t0 + 3.0])
            for j, (t, power, target) in enumerate(((0.25, 4, Rel), (0.5, 2, Rel), (0.75, 4, Rel @ Rel @ Rel))):
                Mt = T.mat_from_rph(Rs.iloc[j][['roll', 'pitch', 'heading']].values.astype(float))
                D = Mt @ A.T
                P = np.linalg.matrix_power(D, power)
                if np.abs(P - target).max() > 1e-9 or np.trace(D) < 1.0 - 1e-9:
                    out.append("resample_state does not follow the shortest rotation between (roll %g, heading %g) and (roll %g, heading %g): at %g of the interval it "
                               "returns rph %s (the geodesic point D A has D^%d = %s)" % (ra, ha, rb, hb, t, np.round(Rs.iloc[j][['roll', 'pitch', 'heading']].values.astype(float), 4).tolist(),
                                                                                            power, "B A'" if j < 2 else "(B A')^3"))
                    break
                if abs(float(Rs.iloc[j]['VN']) - (1.0 + 8.0 * t)) > 1e-12:
                    out.append("resample_state: column VN is not interpolated linearly next to attitude columns (%r at %g)" % (float(Rs.iloc[j]['VN']), t))
                    break
        except Exception as e:
            from . import exc
            if not exc.entered_pyins(e):
                raise
            out.append("resample_state raised %s: %s on a two-row attitude table" % (type(e).__name__, str(e)[:100]))
    return out


def check(rep, pid, tier, seed):
    kn = known.load()
    rep.assumptions += [
        "tick = 0.25 s; integer signals; interpolants are exact rationals with denominators dividing 60 (A4); heading ramps move < 180 deg between knots so that SLERP is linear interpolation of the unwrapped ramp",
        "metres are judged through the closed-form radii of curvature at the mean latitude/altitude (rtol 1e-6); the order of the first-order residual of perturbation recovery is not claimed (1e-3 relative)",
        "for tables with equal median gap and different grids the antisymmetry clause is not asserted (neither is 'sampled more densely')",
    ]
    maxt = 4 if tier == "quick" else 5

    def one(sp):
        return tlc.run_tlc("StateDiff", dict(spec="Spec", constants=dict(MaxT=maxt, SigA=sp[0], SigB=sp[1], Emit=True), invariants=INV),
                           workers=2, timeout=7200, heap="4g")
    with ThreadPoolExecutor(8) as ex:
        results = list(ex.map(one, SIG_PAIRS))
    lines = []
    for sp, r in zip(SIG_PAIRS, results):
        rep.add_tlc("StateDiff[MaxT=%d,sig=%s]" % (maxt, sp), r)
        if not r.ok:
            rep.machinery("leg M: StateDiff violates %s for signals %s: a=%s b=%s" % (
                r.violated, sp, tlc.to_jsonable(r.trace[-1][1].get("a")) if r.trace else "?", tlc.to_jsonable(r.trace[-1][1].get("b")) if r.trace else "?"))
        lines += [l for l in r.prints if l.startswith("<<")]
    rep.exhaustive = all(r.ok for r in results)
    rep.extra["pairs_enumerated"] = len(lines)
    rng = np.random.RandomState(seed)
    if tier == "quick":
        # all pairs whose grids are nested and share the signal are cheap to recognise only after parsing; take a seeded sample
        pick = set(rng.choice(len(lines), size=min(len(lines), 12000), replace=False).tolist())
        lines = [l for i, l in enumerate(lines) if i in pick]
    chunks = [lines[i:i + 100] for i in range(0, len(lines), 100)]

    def work(m, chunk):
        res = []
        for l in chunk:
            try:
                res.append(replay_pair(m, l))
            except Exception as e:
                import traceback
                res.append(([("harness", "%s\n%s" % (e, traceback.format_exc()[-600:]))], False, False, False))
        return res
    counts = dict(nested=0, f9=0, same=0)
    for k, status, out in pool.run_tasks(work, chunks, init=filt._imports, task_timeout=900):
        if status != "done":
            rep.machinery("pair replay chunk %s: %s" % (status, str(out)[:300]))
            continue
        for l, (probs, nested, f9, same) in zip(chunks[k], out):
            rep.traces += 1
            rep.evaluations += 1
            counts["nested"] += nested; counts["f9"] += f9; counts["same"] += same
            rep.nontrivial.add(hash(l))
            for cat, text in probs:
                if cat == "harness":
                    rep.machinery(text)
                elif cat in kn:
                    rep.known_finding(known.text(kn[cat]))
                    rep.extra.setdefault("known_finding_hits", {}).setdefault(cat, 0)
                    rep.extra["known_finding_hits"][cat] += 1
                else:
                    rep.violation("C18 %s%s" % ("(finding %s is not listed in known_findings.json) " % cat if cat != "violation" else "", text),
                                  dict(kind="pair", line=l), key=text[:45])
    rep.extra["pairs_replayed"] = dict(total=rep.traces, **counts)
    if lines:
        rep.sample(dict(leg="R", pair=lines[len(lines) // 3][:700]))
    # ---- to_180_range forms, perturbation recovery
    m = filt._imports()
    wr = tlc.run_tlc("WrapTable", dict(spec="Spec"), workers=1)
    rep.add_tlc("WrapTable", wr)
    table = None
    for l in wr.prints:
        v = tlc.parse_value(l)
        if v[0] == "WRAP":
            table = [(x, w) for x, w in v[1]]
    if not table:
        rep.machinery("WrapTable printed nothing")
    else:
        for p in wrap_forms(m, table):
            rep.violation("C18 " + p, dict(kind="wrap"), key=p[:40])
        rep.traces += 1
    ar = tlc.run_tlc("Attitude", dict(spec="Spec", invariants=["Proper", "PairAngles"]), workers=2, timeout=900, heap="2g")
    rep.add_tlc("Attitude[pairs of level attitudes: the rotation the interpolation has to traverse]", ar)
    if not ar.ok:
        rep.machinery("leg M: Attitude violates %s" % ar.violated)
    pairs = []
    for l in ar.prints:
        v = tlc.parse_value(l)
        if isinstance(v, tuple) and v and v[0] == "ATT" and v[1] == "pair":
            pairs.append((v[2], v[3], [list(x) for x in v[5]], v[6][0]))
    if len(pairs) != 256:
        rep.machinery("Attitude printed %d attitude pairs, expected 256" % len(pairs))
    for p in shortest_arc(m, pairs):
        rep.violation("C18 " + p, dict(kind="arc"), key=p[:40])
    rep.extra["shortest_arc_pairs"] = dict(total=len(pairs), judged=sum(1 for q in pairs if q[3] != -1))
    rep.traces += len(pairs)
    rep.evaluations += len(pairs)
    for p in perturb_recovery(m, seed):
        rep.violation("C18 " + p, dict(kind="perturb"), key=p[:40])
    rep.traces += 40
    rep.evaluations += 41
    # ---- extended coverage: the index algebra of smooth_state (Smooth.tla); a disagreement is MODEL-DRIFT, not a violation of C18
    from . import smooth
    scfgs = smooth.model(rep, tier)
    if tier == "quick":
        scfgs = [c for i, c in enumerate(scfgs) if (i + seed) % 4 == 0]
    sch = [[(n, c) for n, c in enumerate(scfgs)][i::16] for i in range(16)]
    ndrift = 0
    for k, status, out in pool.run_tasks(smooth.replay_chunk, sch, init=filt._imports, task_timeout=900):
        if status != "done":
            rep.machinery("smooth_state replay chunk %s: %s" % (status, str(out)[:300]))
            continue
        for n, p in out:
            ndrift += 1
            rep.model_drift(p)
    rep.extra["smooth_state_extended_coverage"] = dict(configurations_replayed=len(scfgs), disagreements=ndrift,
                                                      note="index algebra of smooth_state against Smooth.tla; not a clause of C18: a disagreement is reported as MODEL-DRIFT")
    rep.traces += len(scfgs)
    rep.rule = ("cases = ordered pairs of tables (grid pair x column-set pair x signal pair) enumerated by TLC and replayed on the real functions; "
                "distinct = distinct pair; non-trivial = every pair (each exercises index rule, swap rule and interpolation differently); "
                "plus 4321 angles x 7 argument forms and 40 perturbation round trips")


def replay(rep, pid, case):
    m = filt._imports()
    kn = known.load()
    rep.traces += 1
    if case["kind"] == "pair":
        probs, _, _, _ = replay_pair(m, case["line"])
        for cat, text in probs:
            if cat in kn:
                rep.known_finding(known.text(kn[cat]))
            else:
                rep.violation("C18 " + text, case)
    elif case["kind"] == "perturb":
        for p in perturb_recovery(m, rep.seed):
            rep.violation("C18 " + p, case)
    elif case["kind"] == "arc":
        ar = tlc.run_tlc("Attitude", dict(spec="Spec", invariants=["Proper", "PairAngles"]), workers=2)
        pairs = []
        for l in ar.prints:
            v = tlc.parse_value(l)
            if isinstance(v, tuple) and v and v[0] == "ATT" and v[1] == "pair":
                pairs.append((v[2], v[3], [list(x) for x in v[5]], v[6][0]))
        for p in shortest_arc(m, pairs):
            rep.violation("C18 " + p, case)
    else:
        wr = tlc.run_tlc("WrapTable", dict(spec="Spec"), workers=1)
        for l in wr.prints:
            v = tlc.parse_value(l)
            if v[0] == "WRAP":
                for p in wrap_forms(m, [(x, w) for x, w in v[1]]):
                    rep.violation("C18 " + p, case)
