"""Fills the tables of DESIGN.md s8.1 / s8.2 from seeded/*/meta.json and selftest/hand_mutants_results.json (between markers)."""
import glob, json, os, re
ROOT = os.path.dirname(os.path.abspath(__file__))


def seeded_table():
    rows = ["| change | property | what it needs to manifest | caught by | first run |", "|---|---|---|---|---|"]
    for d in sorted(glob.glob(os.path.join(ROOT, "seeded", "*"))):
        mp = os.path.join(d, "meta.json")
        if not os.path.exists(mp):
            continue
        m = json.load(open(mp))
        rows.append("| `%s` | %s | %s | %s | %s |" % (os.path.basename(d), m["property"], m["needs"].replace("|", "/"), m["detected_by"].replace("|", "/"), m["first_run"].replace("|", "/")))
    return "\n".join(rows)


def hand_table():
    p = os.path.join(ROOT, "selftest", "hand_mutants_results.json")
    if not os.path.exists(p):
        return "(not run yet)"
    r = json.load(open(p))
    rows = ["| change | file | expected | check: exit (violations, drift lines) | as expected |", "|---|---|---|---|---|"]
    for k, v in r.items():
        if "checks" not in v:
            continue
        rows.append("| `%s` | %s | %s | %s | %s%s |" % (k, v["file"].replace("pyins/", ""), v["expect"],
                    ", ".join("%s: %d (%d, %d)" % (c, x["exit"], x["violations"], x["drift"]) for c, x in v["checks"].items()),
                    "yes" if v.get("as_expected") else "**no**", " - " + v["note"] if v.get("note") else ""))
    return "\n".join(rows)


def main():
    p = os.path.join(ROOT, "DESIGN.md")
    s = open(p).read()
    for name, fn in (("SEEDED", seeded_table), ("HAND", hand_table)):
        a, b = "<!-- %s_TABLE_BEGIN -->" % name, "<!-- %s_TABLE_END -->" % name
        block = a + "\n" + fn() + "\n" + b
        if a in s:
            s = s[:s.index(a)] + block + s[s.index(b) + len(b):]
        else:
            s = s.replace("%s_TABLE" % name, block, 1)
    open(p, "w").write(s)


if __name__ == "__main__":
    main()
