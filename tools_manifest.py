"""Regenerates MANIFEST.json (kept valid at all times). Run: python3 tools_manifest.py"""
import json, os
ROOT = os.path.dirname(os.path.abspath(__file__))
NA = {
 "C01": "Convergence-order claim against the solution of an ODE on the ellipsoid: no finite-state or exactly representable abstraction, so TLC can evaluate neither side (DESIGN.md s1, s6).",
 "C03": "Accuracy of spline-derived IMU rates/forces against analytic kinematics 'within interpolation error that shrinks with the interval' is a limit statement over continuous trajectories; nothing discrete to explore.",
 "C04": "Compares a matrix of transcendental entries with finite-difference sensitivities of a float integrator within the size of neglected terms; numeric tolerance is the whole content.",
 "C15": "Order of accuracy as the sampling interval shrinks is a limit statement; the row/stamp clause is part of the C19 schema check.",
 "C16": "Identities between transcendental functions over a continuum (geodetic round trips, derivatives, parity); no state, no exact domain.",
}
CHECKS = {
 "C02": dict(
   text="TLC enumerates every call history (integrate chunks incl. empty, predict incl. scaled/non-next rows, set_pva, getters) up to a depth bound over small increment tables and capacities {1,2,3,5} in Integrator.tla and proves the contract invariants (IndexOnce, Canonical, PrefixFrozen, PredictPure, ReturnShape, InBounds, refinement of the counter abstraction); TLC-simulated behaviours are then replayed on the real Integrator (subclass with INITIAL_SIZE = Cap0) comparing every row, return value and the time index bitwise with the property's own oracle (fresh object, one integrate call) after every action; random histories beyond the model bound and histories crossing the real 10 000-row capacity are trace-validated by IntegratorTrace.tla / IntegratorCapTrace.tla; Apalache proves the capacity discipline of the counter abstraction as an inductive invariant for all table sizes and capacities.",
   note="Trusts: the single-shot oracle is the same code (numeric correctness is C01, not claimed); TLC; bounds N<=5 exhaustive, N<=7 simulated, N=40 recorded; Pva label order is documented for the constructor, arbitrary for set_pva.",
   technique="TLA+ model (Integrator.tla) checked exhaustively with TLC + replay of TLC-simulated behaviours into the real class + trace validation of recorded call histories",
   ref="DESIGN.md s5 (Integrator), s6 C02"),
 "C09": dict(
   text="FeedbackLoop.tla models run_feedback_filter's loop over abstract time; TLC checks all tick-grid schedules within the bound (IMU subsets = gaps, <=3 stamps over 2 sensors anywhere incl. outside the span, steps below/equal/above the interval and above the span) for exactly-once trajectory rows and innovations, strictly increasing sd index, no zero/backward step, termination (Progress + NotStuck + liveness). TLC-simulated configurations and seeded random float schedules (rank abstraction of time) are executed on the real filter under external probes and validated line by line by FeedbackFilterTrace.tla, which also evaluates the property's clauses on the returned tables.",
   note="Trusts: rank abstraction A1 (stamps used only via comparisons and t+time_step, the latter recomputed by the harness in float); probes wrap public extension points; numeric content of the tables is judged only for finiteness; exhaustive bound MaxTick 4 (quick) / 6 (thorough).",
   technique="TLA+ model of the filter loop checked exhaustively with TLC + trace validation of real executions (ndjson -> FeedbackFilterTrace.tla) + replay of TLC-simulated schedules",
   ref="DESIGN.md s5 (FeedbackFilter), s6 C09"),
 "C10": dict(
   text="As C09 for run_feedforward_filter with FeedforwardLoop.tla: result index strictly increasing, subset of the input stamps, starts at the first, StepBound, every in-span sample used exactly once in order (Query->correct events), increment batches partition the span (model only), termination; exhaustive tick-grid model checking + trace validation of real runs including 10 Hz rows with the default time_step where t+0.1 rounds below the next stamp.",
   note="Same trusted base as C09; the increment-batch partition is established on the model only (the label slice is not observable from outside).",
   technique="TLA+ model of the filter loop checked exhaustively with TLC + trace validation of real executions (FeedforwardFilterTrace.tla) + replay of TLC-simulated schedules",
   ref="DESIGN.md s5 (FeedforwardFilter), s6 C10"),
 "C12": dict(
   text="Clause 1 (transparent without data): invariant Transparent of FeedbackLoop.tla for all schedules of the bound, and on real runs with no in-span sample (None, [], only outside the span) x all sensor-model kinds x steps the trajectory is compared bitwise with plain integration (clause `transparent` of FeedbackFilterTrace.tla). Clause 3 (re-run): FilterRuns.tla (runs sharing model objects, pokes between runs) model-checked, TLC-simulated run sequences executed on the real filters and equal (kind, data) runs compared bitwise. Clause 2 (first-order agreement with the feedforward filter): its DISCRETE part is decided - the dataflow clause of FeedbackFilterTrace.tla on every real run: each correction starts from the current covariance and from a zero error vector (errors were fed back), with the (z, H in the INS block, R) the measurement model returned; the state fed back is correct_pva(CURRENT integrator state, x[INS]), the sensor estimates get the gyro/accel blocks of the same x; P is propagated over exactly the interval the integrator advanced with the joint system of JointSystem.tla's block terms; sd / estimate tables are the values held at the recorded loop times (1e-9 relative; bit-identical id chain as refinement). The asymptotic statement itself (disagreement shrinking with the error scale) is numeric and NOT decided.",
   note="Partial claim: the asymptotic part of clause 2 is out of reach of the technique (DESIGN.md s6 C12). Trusts the bitwise oracle Integrator(initial).integrate(increments) and, for the dataflow clause, the public correct_pva / system_matrices / transform_to_output as the meaning of the steps.",
   technique="TLA+ models (FeedbackLoop.tla, FilterRuns.tla) checked with TLC + trace validation / replay on the real filters with bitwise comparison",
   ref="DESIGN.md s6 C12"),
 "C13": dict(
   text="Integrator.tla carries a 2D abstraction (stored VD zero?, whose altitude a row carries, drifted?) mirroring the kernel's use of the stored VD; TLC proves Frozen2D/AltSource over all call histories of the bound (and shows the pinned set_pva violates it). Replayed behaviours and recorded episodes check on the real class that every produced row and every predict has VD == 0.0 and altitude bit-identical to the most recently supplied one. Real 2D filter runs are validated by the *Trace specs: trajectory VD zero / altitude frozen, sd of down and VD exactly zero in both filters, Position/NedVelocity return 2-row z, H, R, predicted pva handed to measurement models has VD 0, correct_pva leaves altitude bit-identical.",
   note="Trusts the probes (recording measurement subclasses, Integrator subclass); 2D trajectories of the feedforward filter keep their input's alt/VD (checked as an extension).",
   technique="TLA+ model (Integrator.tla 2D abstraction) checked exhaustively with TLC + replay / trace validation on the real integrator and both filters",
   ref="DESIGN.md s6 C13"),
}

CHECKS.update({
 "C07": dict(
   text="KalmanExact.tla computes the textbook conditional-Gaussian update in exact rationals (Exact.tla) for a fixed family of integer instances (n<=4 states, <=5 observations in <=3 independent blocks; diagonal, dense, rank-deficient and zero priors; zero and dependent H rows); TLC explores every ordering of the blocks and checks order independence (= the joint stacked update), the information form where P0 is invertible, symmetry, positive semidefiniteness by all principal minors, and posterior <= prior. Every step of every ordering is replayed with kalman.correct on floats (also under exact power-of-two rescaling of the state) and compared with the exact state at 1e-9; the innovation is checked against the lower-Cholesky whitening relations in square-root-free form; inputs must stay unmodified; the joint call must equal the sequential end state.",
   note="Decided on the exact domain only: conditioning up to 1e10 / R scales 1e+-8 / dimensions up to 20 x 6 are numeric behaviour of the Joseph form and are not decided. The oracle is independent of the code's route (cofactor inverse vs Cholesky solve; P - KHP vs Joseph form).",
   technique="TLA+ model in exact rational arithmetic (KalmanExact.tla) checked with TLC over all block orderings + replay of every explored path into kalman.correct",
   ref="DESIGN.md s6 C07"),
 "C08": dict(
   text="ProcessExact.tla defines Phi(t) and Qd(t) for nilpotent integer F directly from the integrals as finite rational sums and explores with TLC every partition (in every order) of the total step 3 into sub-steps from {1/2,1,2}: the accumulated transition/noise matrices equal the one-shot ones of the elapsed time (Composes), Qd symmetric PSD (all principal minors), zero step. Every explored path is replayed with kalman.compute_process_matrices on floats against the exact matrices at 1e-9. TLC's partitions are also applied to seeded random general systems (stable/unstable/defective/zero/nilpotent, n<=24, singular Q, dt up to 10): composition vs the routine's one-shot value, the independent residual F Qd + Qd F' + Q - Phi Q Phi' = 0, symmetry, PSD, dt=0.",
   note="'Is the matrix exponential' is decided against an independent oracle only for nilpotent F; for general F the oracles are composition and the differential-equation residual (1e-8 relative to the norms). This check found defect F12 (Van Loan cancellation for strongly damped systems), repaired in /repo commit f80c49b.",
   technique="TLA+ model in exact rational arithmetic (ProcessExact.tla) checked with TLC over all step partitions + replay into kalman.compute_process_matrices + metamorphic composition on random systems",
   ref="DESIGN.md s6 C08"),
 "C14": dict(
   text="SensorModel.tla defines the layout of EstimationModel (state order and names, dimensions, which slot sits where in P, q, v, G, H, J, the scale/misalignment index data, rejection of walk-without-bias) and the simulator's column naming for every 18-bit enable mask; TLC checks eight consistency invariants on the masks of a slice (quick: all masks of weight <=2 or >=16 plus one seeded slice of 4096; thorough: all 262 144) and prints each layout, which is compared with a real EstimationModel built with a distinct prime in every slot and with Parameters.apply's table; H(r)x = noise-free simulated error and correct_increments(apply(.)) = id are checked per valid mask. SensorEstimates.tla (reset/update/get/output_matrix histories) is model-checked and its simulated behaviours replayed exactly; SensorNoise.tla is the exponent/magnitude table measured noise statistics are validated against.",
   note="Variance magnitudes are statistical (+-10 % / +-25 %, >= 5 sigma); exponents are exact. Layout comparison is on prime-valued models; estimate arithmetic on multiples of 2^-6.",
   technique="TLA+ models (SensorModel.tla, SensorEstimates.tla, SensorNoise.tla) checked with TLC over mask slices / update histories + replay of every enumerated layout and simulated history into the real classes",
   ref="DESIGN.md s6 C14"),
 "C18": dict(
   text="StateDiff.tla is compute_state_difference / resample_state / to_180_range as exact integer algebra (values x 60) over all ordered pairs of tables on the tick grid (equal, nested, sub-sampled, offset, different rates, overlapping, disjoint) x column-set pairs x signal pairs incl. heading ramps through +-180; TLC checks SelfZero, ZeroAtKnots, SubsampleZero, IndexRule, Antisymmetric, AngleRange, ResampleAtKnots, ResampleLinear and the wrap law for all (half-)integers in +-1080, and prints the exact expectation for each pair, which is compared with the real functions on DataFrames (index ==, columns ==, values to 1e-9, exact 0.0 in the zero clauses, metres via closed-form radii, (-180,180]), both argument orders, Series pairs, resampling with unsorted/duplicate/outside stamps, every argument form of to_180_range, and perturb_pva recovery.",
   note="Known findings F6 (1e-13 attitude round-off in zero clauses), F8 (KeyError for partial attitude columns), F9 (median-gap ranking vs nesting) are matched by predicate and printed; the order of the first-order residual of perturbation recovery is not claimed (1e-3 relative).",
   technique="TLA+ model in exact integer arithmetic (StateDiff.tla) checked with TLC over all table pairs + replay of every enumerated pair into the real transform functions",
   ref="DESIGN.md s6 C18"),
})

CHECKS.update({
 "C19": dict(
   text="Api.tla is the public API as a typed term algebra over spec/ApiTable.tla (76 entries: parameter kinds, accepted argument forms, result kinds, randomness, the parameters a callable may modify): TLC enumerates every callable x every form combination, the patterns f;f and f;g;f with a shared argument (exhaustive) and simulated data-flow chains, with the frame condition built into the Call action. Every generated program is executed on the real library with bit fingerprints of all arguments before/after every call; ApiTrace.tla accepts a run iff content term -> fingerprint is a function at every step (no argument outside `mut` modified, no hidden state, equal inputs and seed give bit-identical results whatever was called in between), the call agrees with its canonical-form call (rtol 1e-12, row 0 of stacked forms), returned tables carry the documented schema, and nothing raises. The table is compared with introspection of the ten modules; a public callable missing from it is reported as UNCOVERED.",
   note="Accepted forms follow the docstrings literally. Excluded with reasons: Turntable.generate_imu (fails at baseline in this image), the abstract Measurement base class. Base objects are one seeded scenario (two content-distinct objects per kind).",
   technique="TLA+ model of the API as a term algebra (Api.tla / ApiTable.tla) with TLC-generated call programs + trace validation of their real executions (ApiTrace.tla)",
   ref="DESIGN.md s6 C19, Appendix B"),
})

CHECKS.update({
 "C06": dict(
   text="MeasModel.tla describes the three measurement classes on an exact domain (cube-group attitudes with pitch 0, integer velocities, lever arms incl. None, angular rates incl. 'pva carries no rate labels', both altitude modes) twice: the block formulas the code uses for H (and the 3D->2D reduction matrix), and the first-order expansion of the residual z = h(INS) - h(true) under the library's own correction convention (p_true = p (-) DR, v_true = (I + phi x)(v - DV), C_true = (I + phi x) C; without altitude DR3 = 0 and DV3 fixed by 'a correction does not change vertical velocity'), in integer first-order algebra. TLC checks in every configuration that the two agree (JacobianIsDerivative, T32IsConstraint) plus dimension and coupling invariants, and rejects the pinned NedVelocity variant (defect F14). Every configuration TLC prints is then built with the real classes: shapes, H == model exactly, R == sd^2 I exactly, z at the true state, data = truth + e gives z = -e (sign, axis, units), the derivative of the REAL residual along the REAL correct_pva (central difference; all entries are integers on this domain, so the comparison is a rounding) == H, nothing returned at an absent time (one ulp / 1e-9 s / 1e-6 relative away, outside, small and large absolute time, integer-typed index), and the simulators of sim.py with zero and seeded noise.",
   note="Decided on the exact domain only: H = dz/dx at general attitudes, non-zero pitch and near the pitch singularity is numeric and not decided; the Position metres conversion is compared at 1e-4 m for 3-8 m displacements (sign/axis/unit mistakes are >= 1 m). This check found defect F14 (NedVelocity did not hand its lever arm to the Jacobian), repaired in /repo commit 1cdb812.",
   technique="TLA+ model in exact integer first-order algebra (MeasModel.tla) checked with TLC over all configurations + replay of every enumerated configuration into the real measurement classes, incl. the derivative of the real residual along the real correction",
   ref="DESIGN.md s6 C06"),
})

CHECKS.update({
 "C17": dict(
   text="Partial claim - the exact part. Attitude.tla models the attitude representations on the cube group: all 64 (roll, pitch, heading) triples of quarter turns, the 12 quarter turns about coordinate axes and the 8 thirds of a turn about body diagonals, as integer matrices. TLC checks that the Euler matrix Rz Ry Rx the code uses is a proper rotation and satisfies the DOCUMENTED convention stated independently of the product formula (NoseDirection: the body x axis points to (cos h cos p, sin h cos p, -sin p) - heading positive north-to-east, pitch positive nose-up; DownInBody: NED down seen from the body is (-sin p, cos p sin r, cos p cos r) - roll positive right-wing-down; the three named conventions literally), RoundTrip away from pitch +-90 (with the principal-range answer for pitch 180), EulerIsAxisProduct / ExpAxisGroupLaw / DiagCubed / Sense tying Euler angles and rotation vectors together. Every configuration is replayed on transform.mat_from_rph (single, list, stacked), transform.mat_to_rph and the integrator's compiled mat_from_rotvec (1e-15). On seeded general inputs the harness additionally evaluates eight numeric predicates that need no external oracle: proper rotation, the closed forms of the convention, the round trip, and for mat_from_rotvec the one-parameter-group law M(sv)M(tv) = M((s+t)v) with M'(0) = skew (which characterises the exponential map), orthonormality, no jump across the small-angle branch. The Jacobian clause (attitude error -> Euler error) is decided under C05 by ErrorTransform.tla at pitch 0.",
   note="Exactly decided on the cube group only. The numeric predicates (tolerances 1e-14 / 4e-15, 10-20 ulp; observed maxima 1.3e-15 / 5e-16) are computed by the harness, not by TLC, and are labelled as such in the evidence; 'to machine precision for every rotation vector' and the Jacobian at non-zero pitch are not decided.",
   technique="TLA+ model of the cube group (Attitude.tla) checked exhaustively with TLC + replay of every enumerated element into the real conversion routines; group-law / closed-form predicates on seeded general inputs",
   ref="DESIGN.md s6 C17"),
 "C05": dict(
   text="ErrorTransform.tla describes the error-state coordinates on an exact domain (cube-group attitudes with pitch 0, integer velocities, both altitude modes) twice: transform_to_output / transform_to_internal as the code writes them ([[I,0,0],[0,I,skew(v)],[0,0,J]], its block inverse, the 2D variants through the 9x7 / 7x9 reduction matrices), and the first-order change of the state under the library's own correction (p (-) DR, (I + phi x)(v - DV), (I + phi x) C) read in output coordinates, where the Euler-angle Jacobian is DERIVED from the differentials of atan2 / asin of the rotation-matrix entries in integer algebra. TLC checks in every configuration OutputIsDerivative, JOrthogonal, LeftInverse (both modes), Rows2DZero, Dims and rejects a sign-slip variant. Every configuration is then built with the real InsErrorModel: both transforms == the model (attitude rows x 180/pi, attitude columns of the inverse x pi/180: the units), their real product == I, the derivative of the REAL correct_pva read through the REAL compute_state_difference == transform_to_output (central difference; integer entries after removing the unit factor, so the comparison is a rounding), perturb_pva followed by correct_pva with the corresponding internal vector restores the state to SECOND order (the order is measured from three scales and rounded - a discrete observable), in 2D a correction leaves altitude and VD bit-identical and the down/VD rows are exactly zero, stacked form == per-row form, label-permuted Pva.",
   note="Decided on the exact domain only: the Euler-angle Jacobian at non-zero pitch and behaviour near the pitch singularity are numeric and not decided; components of the restore residual below the representation floor (1e-7 m, 1e-11) are not judged.",
   technique="TLA+ model in exact integer first-order algebra (ErrorTransform.tla) checked with TLC over all configurations + replay of every enumerated configuration into the real InsErrorModel, incl. the derivative of the real correction and the measured restore order",
   ref="DESIGN.md s6 C05"),
 "C11": dict(
   text="Partial claim - the discrete part of 'the feedforward filter is the optimal estimator of its model'. The property is decomposed: (1) each measurement step is the exact Bayesian update (C07), (2) each propagation uses the exact transition/noise integral (C08), (3) the joint system: JointSystem.tla gives, for every configuration (mode x gyro mask x accel mask), the block offsets, the may-be-non-zero patterns and the BLOCK TERMS of F, G, q, P0 and the measurement matrix as formulas over the public pieces (system_matrices, the sensor models' F/G/H(r)/J/P/q/v, transform_to_internal, the measurement model's H); TLC checks their mutual consistency (TermsMatchSupport, NoiseOrder, NoiseRouting, QStructure, WalkOwnBias, ...); (4) the time grid (FeedforwardLoop.tla, exhaustive, as C10); (5) the dataflow: on real executions (TLC-simulated configurations, corner and seeded random float schedules, all sensor-model kinds, both modes) the harness keeps its own copy of what x and P must be (P0 assembled from the block terms; every kalman.correct output; Phi x and Phi P Phi' + Qd with Phi, Qd as compute_process_matrices returned them) and FeedforwardFilterTrace.tla judges every observed call: correct() is given the current x and P and the (z, H placed in the INS block, R) its measurement model returned; the measurement models see the computed trajectory interpolated at the epoch; compute_process_matrices is given the joint (F, Q) of the block terms at the mid-point state with the increments of exactly that interval and dt = the advance of the result index; result rows (sensor tables = x blocks, sd = sqrt diag(T P T'), compensated trajectory = computed - T x, innovations = what correct returned) are those of the (x, P) held when the row was recorded. Values are compared at 1e-9 relative (contract); the bit-identical id chain is walked by the trace specification as refinement.",
   note="NOT decided: the numeric comparison with an independent one-shot Gauss-Markov solution. It follows from (1)-(5) by the Kalman filter theorem, which is trusted; C07/C08 are decided on exact domains only; the attitude averaging of the filter's private interpolation helper is taken as given (position/velocity interpolation is checked).",
   technique="TLA+ models (JointSystem.tla block terms, FeedforwardLoop.tla) checked with TLC + trace validation of real executions against FeedforwardFilterTrace.tla (dataflow clause: value chain of x and P, joint-system assembly, result rows)",
   ref="DESIGN.md s6 C11"),
})

ORDER = ["C02", "C05", "C06", "C07", "C08", "C09", "C10", "C11", "C12", "C13", "C14", "C17", "C18", "C19"]
m = {
 "version": 1,
 "setup_cmd": "true",
 "hooks": {"guard": "PYINS_VERIF", "enable": "no in-repo hooks: checks observe pyins through recording subclasses and wrapped module attributes (DESIGN.md s3.3); they import pyins from /repo's working tree",
           "baseline_off_cmd": "cd /repo && /venv/bin/python -m pytest -ra -q -p no:cacheprovider --timeout=900 --continue-on-collection-errors",
           "source_commits": [], "add_only": True},
 "engines": [{"name": "tlc", "path": "/usr/local/bin/tlc", "serves_properties": [p for p in ORDER if p in CHECKS], "kind_free_text": "TLC 1.8 explicit-state model checker (exhaustive, -simulate, trace validation) on the specifications in /verif/spec"}],
 "checks": [],
 "notes": "Model-based verification with explicit TLA+ specifications (spec/), TLC and conformance harnesses (harness/). ./check <id> --tier quick|thorough; exit 2 = machinery failure. See DESIGN.md.",
 "not_applicable": [],
}
for pid in ORDER:
    if pid not in CHECKS:
        continue
    c = CHECKS[pid]
    m["checks"].append({
        "property_id": pid,
        "quick_cmd": "./check %s --tier quick" % pid,
        "thorough_cmd": "./check %s --tier thorough" % pid,
        "evidence_file": "/verif/evidence/%s.json" % pid,
        "replay_cmd_template": "./check %s --replay {path}" % pid,
        "engine": "tlc",
        "level_claimed": {"category": "model_checking", "text": c["text"], "design_ref": c["ref"]},
        "level_note": c["note"],
        "technique": c["technique"],
    })
PENDING = {p: "check under construction in this round (claimed by DESIGN.md; machinery not yet committed)" for p in ORDER if p not in CHECKS}
na = dict(NA); na.update(PENDING)
m["not_applicable"] = [{"property_id": k, "reason": v} for k, v in sorted(na.items())]
json.dump(m, open(os.path.join(ROOT, "MANIFEST.json"), "w"), indent=1)
print("checks:", [c["property_id"] for c in m["checks"]], "n/a:", sorted(na))
