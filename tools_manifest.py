"""Regenerates MANIFEST.json (kept valid at all times). Run: python3 tools_manifest.py"""
import json, os
ROOT = os.path.dirname(os.path.abspath(__file__))
NA = {
 "C01": "Convergence-order claim against the solution of an ODE on the ellipsoid: no finite-state or exactly representable abstraction, so TLC can evaluate neither side (DESIGN.md s1, s6).",
 "C03": "Accuracy of spline-derived IMU rates/forces against analytic kinematics 'within interpolation error that shrinks with the interval' is a limit statement over continuous trajectories; nothing discrete to explore.",
 "C04": "Compares a matrix of transcendental entries with finite-difference sensitivities of a float integrator within the size of neglected terms; numeric tolerance is the whole content.",
 "C05": "Left-inverse and first/second-order residual claims over continuous states are numeric; its only discrete clause (2D rows identically zero) is exercised under C13.",
 "C06": "Equality of H with a derivative is numeric; the discrete clauses (nothing returned at an absent time, two rows in 2D) are exercised by the Query events of C09/C10/C13 but the property is not claimed.",
 "C11": "Numeric equality between two float pipelines (recursive filter vs batch Gauss-Markov) over transcendental system matrices; its time grid is C10 and the block layout is covered structurally under C14.",
 "C15": "Order of accuracy as the sampling interval shrinks is a limit statement; the row/stamp clause is part of the C19 schema check.",
 "C16": "Identities between transcendental functions over a continuum (geodetic round trips, derivatives, parity); no state, no exact domain.",
 "C17": "Trig round trips, exponential-map accuracy across a branch threshold and a Jacobian identity are numeric-accuracy claims with no discrete structure.",
}
CHECKS = {
 "C02": dict(
   text="TLC enumerates every call history (integrate chunks incl. empty, predict incl. scaled/non-next rows, set_pva, getters) up to a depth bound over small increment tables and capacities {1,2,3,5} in Integrator.tla and proves the contract invariants (IndexOnce, Canonical, PrefixFrozen, PredictPure, ReturnShape, InBounds, refinement of the counter abstraction); TLC-simulated behaviours are then replayed on the real Integrator (subclass with INITIAL_SIZE = Cap0) comparing every row, return value and the time index bitwise with the property's own oracle (fresh object, one integrate call) after every action; random histories beyond the model bound and histories crossing the real 10 000-row capacity are trace-validated by IntegratorTrace.tla / IntegratorCapTrace.tla.",
   note="Trusts: the single-shot oracle is the same code (numeric correctness is C01, not claimed); TLC; bounds N<=5 exhaustive, N<=7 simulated, N=40 recorded; Pva label order is documented for the constructor, arbitrary for set_pva.",
   technique="TLA+ model (Integrator.tla) checked exhaustively with TLC + replay of TLC-simulated behaviours into the real class + trace validation of recorded call histories",
   ref="DESIGN.md s5 (Integrator), s6 C02"),
 "C09": dict(
   text="FeedbackLoop.tla models run_feedback_filter's loop over abstract time; TLC checks all tick-grid schedules within the bound (IMU subsets = gaps, <=3 stamps over 2 sensors anywhere incl. outside the span, steps below/equal/above the interval and above the span) for exactly-once trajectory rows and innovations, strictly increasing sd index, no zero/backward step, termination (Progress + NotStuck + liveness). TLC-simulated configurations and seeded random float schedules (rank abstraction of time) are executed on the real filter under external probes and validated line by line by FeedbackFilterTrace.tla, which also evaluates the property's clauses on the returned tables.",
   note="Trusts: rank abstraction A1 (stamps used only via comparisons and t+time_step, the latter recomputed by the harness in float); probes wrap public extension points; numeric content of the tables is judged only for finiteness; exhaustive bound MaxTick 4 (quick) / 6 (thorough).",
   technique="TLA+ model of the filter loop checked exhaustively with TLC + trace validation of real executions (ndjson -> FeedbackFilterTrace.tla) + replay of TLC-simulated schedules",
   ref="DESIGN.md s5 (FeedbackFilter), s6 C09"),
 "C10": dict(
   text="As C09 for run_feedforward_filter with FeedforwardLoop.tla: result index strictly increasing, subset of the input stamps, starts at the first, StepBound, every in-span sample used exactly once in order (Query->correct events), increment batches partition the span (model only), termination; exhaustive tick-grid model checking + trace validation of real runs including 10 Hz rows with the default time_step where t+0.1 rounds below the next stamp.",
   note="Same trusted base as C09; the increment-batch partition is established on the model only (the label slice is not observable from outside).",
   technique="TLA+ model of the filter loop checked exhaustively with TLC + trace validation of real executions (FeedforwardFilterTrace.tla) + replay of TLC-simulated schedules",
   ref="DESIGN.md s5 (FeedforwardFilter), s6 C10"),
 "C12": dict(
   text="Clause 1 (transparent without data): invariant Transparent of FeedbackLoop.tla for all schedules of the bound, and on real runs with no in-span sample (None, [], only outside the span) x all sensor-model kinds x steps the trajectory is compared bitwise with plain integration (clause `transparent` of FeedbackFilterTrace.tla). Clause 3 (re-run): FilterRuns.tla (runs sharing model objects, pokes between runs) model-checked, TLC-simulated run sequences executed on the real filters and equal (kind, data) runs compared bitwise. Clause 2 (first-order agreement with the feedforward filter) is numeric and NOT decided.",
   note="Partial claim: clause 2 is out of reach of the technique (DESIGN.md s6 C12). Trusts the bitwise oracle Integrator(initial).integrate(increments).",
   technique="TLA+ models (FeedbackLoop.tla, FilterRuns.tla) checked with TLC + trace validation / replay on the real filters with bitwise comparison",
   ref="DESIGN.md s6 C12"),
 "C13": dict(
   text="Integrator.tla carries a 2D abstraction (stored VD zero?, whose altitude a row carries, drifted?) mirroring the kernel's use of the stored VD; TLC proves Frozen2D/AltSource over all call histories of the bound (and shows the pinned set_pva violates it). Replayed behaviours and recorded episodes check on the real class that every produced row and every predict has VD == 0.0 and altitude bit-identical to the most recently supplied one. Real 2D filter runs are validated by the *Trace specs: trajectory VD zero / altitude frozen, sd of down and VD exactly zero in both filters, Position/NedVelocity return 2-row z, H, R, predicted pva handed to measurement models has VD 0, correct_pva leaves altitude bit-identical.",
   note="Trusts the probes (recording measurement subclasses, Integrator subclass); 2D trajectories of the feedforward filter keep their input's alt/VD (checked as an extension).",
   technique="TLA+ model (Integrator.tla 2D abstraction) checked exhaustively with TLC + replay / trace validation on the real integrator and both filters",
   ref="DESIGN.md s6 C13"),
}
ORDER = ["C02", "C07", "C08", "C09", "C10", "C12", "C13", "C14", "C18", "C19"]
m = {
 "version": 1,
 "setup_cmd": "true",
 "hooks": {"guard": "PYINS_VERIF", "enable": "no in-repo hooks: checks observe pyins through recording subclasses and wrapped module attributes (DESIGN.md s3.3); they import pyins from /repo's working tree",
           "baseline_off_cmd": "cd /repo && /venv/bin/python -m pytest -ra -q -p no:cacheprovider --timeout=900 --continue-on-collection-errors",
           "source_commits": [], "add_only": True},
 "engines": [{"name": "tlc", "path": "/usr/local/bin/tlc", "serves_properties": [p for p in ORDER if p in CHECKS], "kind_free_text": "TLC 1.8 explicit-state model checker (exhaustive, -simulate, trace validation) on the specifications in /verif/spec"}],
 "checks": [],
 "notes": "Model-based verification with explicit TLA+ specifications (spec/), TLC and conformance harnesses (harness/). ./check <id> --tier quick|thorough; exit 2 = machinery failure. See DESIGN.md.",
 "not_applicable": [],
}
for pid in ORDER:
    if pid not in CHECKS:
        continue
    c = CHECKS[pid]
    m["checks"].append({
        "property_id": pid,
        "quick_cmd": "./check %s --tier quick" % pid,
        "thorough_cmd": "./check %s --tier thorough" % pid,
        "evidence_file": "/verif/evidence/%s.json" % pid,
        "replay_cmd_template": "./check %s --replay {path}" % pid,
        "engine": "tlc",
        "level_claimed": {"category": "model_checking", "text": c["text"], "design_ref": c["ref"]},
        "level_note": c["note"],
        "technique": c["technique"],
    })
PENDING = {p: "check under construction in this round (claimed by DESIGN.md; machinery not yet committed)" for p in ORDER if p not in CHECKS}
na = dict(NA); na.update(PENDING)
m["not_applicable"] = [{"property_id": k, "reason": v} for k, v in sorted(na.items())]
json.dump(m, open(os.path.join(ROOT, "MANIFEST.json"), "w"), indent=1)
print("checks:", [c["property_id"] for c in m["checks"]], "n/a:", sorted(na))
