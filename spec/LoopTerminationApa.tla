--------------------------- MODULE LoopTerminationApa ---------------------------
EXTENDS Integers
CONSTANTS
  \* @type: Bool;
  Guard
VARIABLES
  \* @type: Int;
  idx,
  \* @type: Int;
  mi,
  \* @type: Int;
  nrows,
  \* @type: Int;
  nmeas,
  \* @type: Bool;
  fin
INSTANCE LoopTermination
ConstInitT == Guard = TRUE
ConstInitF == Guard = FALSE
IndInit == IndInv
=============================================================================
