--------------------------- MODULE FeedbackLoop ---------------------------
(***************************************************************************)
(* The main loop of pyins.filters.run_feedback_filter (filters.py:252-369) *)
(* as a transition system over abstract time.                              *)
(*                                                                         *)
(* Time stamps are integers: ticks in the model-checking instance, ranks   *)
(* of the float stamps in trace validation (abstraction A1 of DESIGN.md:   *)
(* the loop uses stamps only through <, <=, = and through t + time_step,   *)
(* which is supplied as the table cfg.hz).                                 *)
(*                                                                         *)
(* Two layers:                                                             *)
(*   refinement  - cursors T, ii, mi, flag didMeas; one action per         *)
(*                 critical section of the code: ProcessMeas (one          *)
(*                 measurement epoch: predict, query every sensor,         *)
(*                 correct, set_pva, update estimates), Advance (record    *)
(*                 result row, choose batch, integrate, propagate          *)
(*                 covariance), Finish (loop exit).                        *)
(*   contract    - traj, innov, sdT, calls, est, incEst, covT and the      *)
(*                 invariants below, phrased as the properties phrase      *)
(*                 them (C09, C12 clause 1, C13).                          *)
(*                                                                         *)
(* Shipped = TRUE keeps the loop of the pinned v1.0.1 tree (an `if` where  *)
(* the repaired code has an inner `while`) so that the counterexamples     *)
(* that led to the fix commits stay reproducible from the specification.   *)
(***************************************************************************)
EXTENDS Integers, Sequences, FiniteSets, SequencesExt, FiniteSetsExt

CONSTANT Shipped

VARIABLES cfg,      \* [start, imu, meas, hz, alt] - the call's arguments, never changed
          T,        \* integrator.get_time()
          ii,       \* increments_index (number of increments consumed, 0-based cursor)
          mi,       \* measurement_time_index + 1
          didMeas,  \* Shipped only: the measurement branch was already taken in this iteration
          done,
          traj,     \* time index of integrator.trajectory after the initial row
          innov,    \* per sensor: stamps of the innovation rows appended so far
          sdT,      \* times_result: index of trajectory_sd / gyro / accel tables
          calls,    \* integrator call log: <<"predict", from, to>>, <<"set">>, <<"integrate", batch>>
          est,      \* number of update_estimates calls so far (version of the sensor estimates)
          incEst,   \* per integrated increment: estimate version its correction used
          covT,     \* time the covariance matrix P refers to
          bad       \* set of strings: things that must never happen (index error, zero interval ...)

vars == <<cfg, T, ii, mi, didMeas, done, traj, innov, sdT, calls, est, incEst, covT, bad>>

Inf == 1000000
Min2(a, b) == IF a < b THEN a ELSE b
Sorted(S) == SetToSortSeq(S, LAMBDA a, b : a < b)
StrictInc(s) == \A i \in 1..(Len(s) - 1) : s[i] < s[i + 1]

Imu == cfg.imu
NS == Len(cfg.meas)                       \* sensors are 1..NS, in the order of the `measurements` list
Meas(s) == cfg.meas[s]
End == Imu[Len(Imu)]
AllMeas == UNION {Meas(s) : s \in 1..NS}
\* filters.py:252-260: sorted unique union, clipped to [start, end], sentinel appended
Mts == Sorted({t \in AllMeas : t >= cfg.start /\ t <= End}) \o <<Inf>>
Points == <<cfg.start>> \o Imu
HzOf(t) == cfg.hz[CHOOSE k \in 1..Len(Points) : Points[k] = t]     \* float(t) + time_step
CountLE(x) == Cardinality({k \in 1..Len(Imu) : Imu[k] <= x})        \* searchsorted(index, x, 'right')

InitLoop ==
  /\ T = cfg.start /\ ii = 0 /\ mi = 1 /\ didMeas = FALSE /\ done = FALSE
  /\ traj = <<>> /\ innov = [s \in 1..NS |-> <<>>] /\ sdT = <<>> /\ calls = <<>>
  /\ est = 0 /\ incEst = <<>> /\ covT = cfg.start /\ bad = {}

Running == ~done /\ T < End
\* increments.iloc[increments_index] at the top of the loop body
NextIncOK == ii + 1 <= Len(Imu) /\ ii >= 0
Due == NextIncOK /\ Mts[mi] < Imu[ii + 1]

Hits(mt) == {s \in 1..NS : mt \in Meas(s)}

ProcessMeas ==
  /\ Running /\ Due /\ (Shipped => ~didMeas)
  /\ LET mt == Mts[mi] IN
       /\ innov' = [s \in 1..NS |-> IF s \in Hits(mt) THEN Append(innov[s], mt) ELSE innov[s]]
       /\ calls' = calls \o << <<"predict", T, mt>>, <<"set">> >>
       /\ bad' = bad \cup (IF mt < T THEN {"backward_extrapolation"} ELSE {})
                     \cup (IF covT # T THEN {"cov_not_at_T"} ELSE {})
  /\ mi' = mi + 1
  /\ est' = est + 1
  /\ didMeas' = TRUE
  /\ UNCHANGED <<cfg, T, ii, done, traj, sdT, incEst, covT>>

Advance ==
  /\ Running /\ (~Due \/ (Shipped /\ didMeas))
  /\ LET nt    == Min2(HzOf(T), Mts[mi])
         n0    == CountLE(nt)
         nii   == IF n0 = ii THEN n0 + 1 ELSE n0                 \* at-least-one guard
         batch == IF nii > ii /\ nii <= Len(Imu) THEN SubSeq(Imu, ii + 1, nii)
                  ELSE IF nii > ii THEN SubSeq(Imu, ii + 1, Len(Imu)) ELSE <<>>
         T2    == IF batch = <<>> THEN T ELSE batch[Len(batch)]
     IN /\ sdT' = Append(sdT, T)
        /\ ii' = nii
        /\ traj' = traj \o batch
        /\ incEst' = incEst \o [k \in 1..Len(batch) |-> est]
        /\ calls' = Append(calls, <<"integrate", batch>>)
        /\ T' = T2
        /\ covT' = T2
        /\ bad' = bad \cup (IF ~NextIncOK THEN {"index_error"} ELSE {})
                      \cup (IF T2 = T THEN {"zero_interval"} ELSE {})
                      \cup (IF nii < ii THEN {"cursor_backwards"} ELSE {})
  /\ didMeas' = FALSE
  /\ UNCHANGED <<cfg, mi, done, innov, est>>

Finish ==
  /\ ~done /\ ~(T < End)
  /\ done' = TRUE
  /\ UNCHANGED <<cfg, T, ii, mi, didMeas, traj, innov, sdT, calls, est, incEst, covT, bad>>

NextLoop == ProcessMeas \/ Advance \/ Finish

(***************************************************************************)
(* Contract (C09)                                                          *)
(***************************************************************************)
InSpan(s) == Sorted({t \in Meas(s) : t >= cfg.start /\ t < End})

TrajPrefix == IsPrefix(traj, Imu)                       \* every increment time at most once, in order
TIsLastRow == T = (IF traj = <<>> THEN cfg.start ELSE traj[Len(traj)])
InnovPrefix == \A s \in 1..NS : IsPrefix(innov[s], InSpan(s))   \* own stamp, time order, never twice
SdStrict == StrictInc(sdT) /\ Range(sdT) \subseteq ({cfg.start} \cup Range(traj))
NothingBad == bad = {}
NoStale == \A k \in 1..Len(calls) :
              calls[k][1] = "predict" => (calls[k][2] <= calls[k][3])      \* never extrapolate backwards
IterBound == Len(sdT) <= Len(Imu) /\ mi <= Len(Mts)
CovFollowsT == covT = T
AtDone == done =>
   /\ traj = Imu                                          \* ... and every one exactly once
   /\ \A s \in 1..NS : innov[s] = InSpan(s)               \* every in-span sample exactly once
   /\ sdT # <<>> /\ sdT[1] = cfg.start
(***************************************************************************)
(* Beyond the listed property: each increment is corrected with the        *)
(* estimates produced by exactly the measurement epochs that precede its   *)
(* own time stamp; estimate versions never go back.                        *)
(***************************************************************************)
FreshEstimates ==
   \A k \in 1..Len(incEst) :
      /\ (k > 1 => incEst[k - 1] <= incEst[k])
      /\ incEst[k] = Cardinality({t \in Range(Mts) : t < traj[k]})
(* C12 clause 1: with no sample in [start, end) the filter is a plain integrator *)
NoData == \A s \in 1..NS : InSpan(s) = <<>>
Transparent == NoData =>
   /\ est = 0
   /\ \A k \in 1..Len(calls) : calls[k][1] = "integrate"
   /\ \A k \in 1..Len(incEst) : incEst[k] = 0

\* with Progress and IterBound this is termination without a liveness check: no stuck state before done
NotStuck == ~done => ENABLED NextLoop

\* termination as an action property (a state constraint cannot hide a non-progress cycle here)
Progress == [][ /\ (Advance => T' > T)
                /\ (ProcessMeas => mi' > mi) ]_vars
=============================================================================
