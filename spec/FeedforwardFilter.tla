--------------------------- MODULE FeedforwardFilter ---------------------------
(* Model-checking instance of FeedforwardLoop on the integer tick grid. *)
EXTENDS FeedforwardLoop, TLC

CONSTANTS NSensors, MaxTick, MaxMeas, Steps

Stamps == (-1)..(MaxTick + 1)

Init ==
  /\ \E S \in {X \in SUBSET (0..MaxTick) : Cardinality(X) >= 2} :
     \E St \in {X \in SUBSET Stamps : Cardinality(X) <= MaxMeas} :
     \E f \in [St -> (SUBSET (1..NSensors)) \ {{}}] :
     \E step \in Steps :
        cfg = [times |-> Sorted(S),
               meas  |-> [s \in 1..NSensors |-> {t \in St : s \in f[t]}],
               hz    |-> [k \in 1..Cardinality(S) |-> Sorted(S)[k] + step],
               inct  |-> S]
  /\ InitLoop

Spec == Init /\ [][NextLoop]_vars /\ WF_vars(NextLoop)
Terminates == <>done

\* the loop refines the cursor abstraction whose termination Apalache proves for ALL sizes (LoopTermination.tla);
\* the pinned loop (Shipped) has no at-least-one-row guard
Abs == INSTANCE LoopTermination WITH Guard <- ~Shipped, idx <- index - 1, mi <- mi, nrows <- N - 1, nmeas <- Len(Mts) - 1, fin <- done
RefinesAbstraction == Abs!ASpec

\* ... and the counting abstraction whose exactly-once invariants Apalache proves for ALL sizes (ExactlyOnce.tla)
InSpanEpochs == {k \in 1..(Len(Mts) - 1) : Mts[k] < End}
MIn == Cardinality(InSpanEpochs)
Behind == Cardinality({k \in InSpanEpochs : index <= N /\ Mts[k] < Times[index]})
DueCnt == IF index + 1 <= N THEN Cardinality({k \in InSpanEpochs : Mts[k] < Times[index + 1]}) ELSE MIn
Once == INSTANCE ExactlyOnce WITH Inner <- ~Shipped, i <- index - 1, mi <- mi, n <- N - 1, m <- MIn, b <- Behind, d <- DueCnt, fin <- done
RefinesExactlyOnce == Once!ESpec
=============================================================================
