--------------------------- MODULE IntegratorCap ---------------------------
(***************************************************************************)
(* Counter abstraction of Integrator: only the number of public rows n,    *)
(* the buffer capacity cap and the consumed-increment counter.  Used to    *)
(* validate long real call histories that cross the default capacity of    *)
(* 10 000 rows (where terms of Integrator.tla would be too large), and     *)
(* checked by TLC to be refined by Integrator (IntegratorRefinesCap).      *)
(***************************************************************************)
EXTENDS Integers

CONSTANTS NInc, Cap0
VARIABLES cn, ccap, cfed, coob

cvars == <<cn, ccap, cfed, coob>>
CMax2(a, b) == IF a > b THEN a ELSE b
CGrow(need) == IF need > ccap THEN CMax2(2 * ccap, need) ELSE ccap

CInit == cn = 1 /\ ccap = Cap0 /\ cfed = 0 /\ coob = FALSE

CIntegrate(k) ==
  /\ k \in 0..(NInc - cfed)
  /\ ccap' = CGrow(cn + k)
  /\ coob' = (coob \/ cn + k > CGrow(cn + k))
  /\ cn' = cn + k /\ cfed' = cfed + k

CPredict ==
  /\ ccap' = CGrow(cn + 1)
  /\ coob' = (coob \/ cn + 1 > CGrow(cn + 1))
  /\ UNCHANGED <<cn, cfed>>

CObserve == UNCHANGED cvars          \* set_pva, get_pva, get_time: no capacity effect

CNext == (\E k \in 0..NInc : CIntegrate(k)) \/ CPredict \/ CObserve
CSpec == CInit /\ [][CNext]_cvars

CInBounds == ~coob /\ cn <= ccap
CIndexOnce == cn = cfed + 1
\* capacity only grows, and by at most doubling unless a single chunk needs more
CMonotone == [][ccap' >= ccap]_cvars
=============================================================================
