--------------------------- MODULE StrapdownStep ---------------------------
(***************************************************************************)
(* One step of the strapdown integrator of pyins (_numba_integrate.py      *)
(* :43-120) as a transition system, and its CONSISTENCY with the equations *)
(* of rigid-body navigation on the rotating ellipsoid (C01, the sentence   *)
(* that is an identity: "there is no error component that does not vanish  *)
(* with the interval" - for a one-step method that is                      *)
(*                                                                         *)
(*     Phi(x, w dt, f dt, dt) = x + dt * RHS(x, w, f) + O(dt^2)            *)
(*                                                                         *)
(* for every state x and constant body rate w / specific force f; together *)
(* with the smoothness of Phi it is what makes the global error vanish).   *)
(*                                                                         *)
(* Exact domain: attitudes of the cube group with pitch 0, integer         *)
(* velocities, body rates and specific forces (MeasDomain).  The Earth     *)
(* enters through eight quantities that are constants of one step; the     *)
(* one-step map to first order in dt and the right-hand side are LINEAR in *)
(* them with integer coefficients, so a quantity is a FORM: a vector of    *)
(* nine integers over the basis                                            *)
(*    1 ONE   2 G  gravity(lat, alt)     3 ON  RATE cos(lat)               *)
(*    4 OD  -RATE sin(lat)  5 KN 1/(rn+alt)   6 KE 1/(re+alt)              *)
(*    7 KET KE tan(lat)     8 KES KE / cos(lat)                            *)
(*    9 TAINT: anything of second order in the Earth quantities, an odd    *)
(*      number halved, the altitude gradient of gravity - never cancels;   *)
(*      it may appear in intermediate results but not in the final ones.   *)
(* A DUAL is a pair <<a0, a1>> of forms, a0 + a1 h with h = dt / 2, h^2 =  *)
(* 0 (h and not dt, so that the code's factors 0.5 stay in the integers).  *)
(*                                                                         *)
(* Two descriptions:                                                       *)
(*  (a) code-shaped: the loop body of integrate(), statement by statement, *)
(*      one action per block of the code (velocity update with the         *)
(*      Coriolis / transport terms evaluated at the old state and the      *)
(*      half-sculling term, midpoint velocity, position update by the      *)
(*      trapezoid rule, attitude update by the two rotation-vector         *)
(*      matrices), evaluated in dual arithmetic;                           *)
(*  (b) derived: the navigation equations in vector form, nothing of the   *)
(*      code:   lat' = VN/(rn+alt), lon' = VE/((re+alt) cos lat),          *)
(*      alt' = -VD,  v' = C f + g - (2 Omega + rho) x v,                   *)
(*      C' = C [w x] - [(Omega + rho) x] C.                                *)
(* TLC decides in every configuration that the first-order coefficient of  *)
(* (a) equals (b) (Consistent), that a step of length zero changes nothing *)
(* (ZeroStep) and that no second-order Earth term survives (NoTaint).      *)
(***************************************************************************)
EXTENDS FirstOrder, MeasDomain

CONSTANTS RollQ, HeadQ, PitchQ,
          CoriolisOnce,    \* FALSE = the code; TRUE = the velocity update uses the transport-plus-Earth rate once instead of (chi + Omega): must be rejected
          TransportFlip    \* FALSE = the code; TRUE = the north transport rate with the wrong sign: must be rejected

VARIABLES alt, rq, pq, hq, vel, f, w,  \* the configuration
          pc,                          \* "vel" -> "mid" -> "pos" -> "att" -> "done"
          vnew, vmid, pnew, cnew,      \* duals computed so far (<<>> before)
          der                          \* the derived right-hand side of the configuration (computed once, in Init)
vars == <<alt, rq, pq, hq, vel, f, w, pc, vnew, vmid, pnew, cnew, der>>

NB == 9
FZ == [i \in 1..NB |-> 0]
FI(k) == [i \in 1..NB |-> IF i = 1 THEN k ELSE 0]
FS(s) == [i \in 1..NB |-> IF i = s THEN 1 ELSE 0]
FTaint == FS(9)
AbsI(k) == IF k < 0 THEN 0 - k ELSE k
FAddR(a, b) == [i \in 1..NB |-> a[i] + b[i]]
FNegR(a) == [i \in 1..NB |-> IF i = 9 THEN a[i] ELSE 0 - a[i]]
FScaleR(k, a) == [i \in 1..NB |-> IF i = 9 THEN AbsI(k) * a[i] ELSE k * a[i]]
IsFree(a) == \A i \in 2..NB : a[i] = 0
FMulR(a, b) == IF IsFree(a) THEN FScaleR(a[1], b) ELSE IF IsFree(b) THEN FScaleR(b[1], a) ELSE FTaint
FHalfR(a) == IF \A i \in 1..8 : a[i] % 2 = 0 THEN [i \in 1..NB |-> IF i = 9 THEN a[i] ELSE a[i] \div 2] ELSE FAddR(a, FTaint)
FDivR(a, n) == IF \A i \in 1..8 : a[i] % n = 0 THEN [i \in 1..NB |-> IF i = 9 THEN a[i] ELSE a[i] \div n] ELSE FAddR(a, FTaint)
OnlyAt(a, s) == \A i \in 1..NB : i # s => a[i] = 0
MoveR(a, to) == IF OnlyAt(a, 6) THEN [i \in 1..NB |-> IF i = to THEN a[6] ELSE 0] ELSE FTaint     \* KE times tan(lat) / over cos(lat)
FAdd(a, b) == Bind2(FAddR, a, b)
FNeg(a) == Bind1(FNegR, a)
FSub(a, b) == FAdd(a, FNeg(b))
FScale(k, a) == Bind2(FScaleR, k, a)
FMul(a, b) == Bind2(FMulR, a, b)

(* duals *)
DI(k) == <<FI(k), FZ>>
DS(s) == <<FS(s), FZ>>
DAddR(x, y) == <<FAddR(x[1], y[1]), FAddR(x[2], y[2])>>
DNegR(x) == <<FNegR(x[1]), FNegR(x[2])>>
DMulR(x, y) == <<FMulR(x[1], y[1]), FAddR(FMulR(x[1], y[2]), FMulR(x[2], y[1]))>>
DHalfR(x) == <<FHalfR(x[1]), FHalfR(x[2])>>
DDivR(x, n) == <<FDivR(x[1], n), FDivR(x[2], n)>>
DTanR(x) == <<MoveR(x[1], 7), MoveR(x[2], 7)>>
DCosR(x) == <<MoveR(x[1], 8), MoveR(x[2], 8)>>
DAdd(x, y) == Bind2(DAddR, x, y)
DNeg(x) == Bind1(DNegR, x)
DSub(x, y) == DAdd(x, DNeg(y))
DMul(x, y) == Bind2(DMulR, x, y)
DHalf(x) == Bind1(DHalfR, x)
DDiv(x, n) == Bind2(DDivR, x, n)
DTimesTan(x) == Bind1(DTanR, x)
DOverCos(x) == Bind1(DCosR, x)
DT == <<FZ, FI(2)>>          \* dt = 2 h
HalfDT == <<FZ, FI(1)>>      \* 0.5 * dt
DMatMulR(A, B) == [i \in 1..3 |-> [j \in 1..3 |-> DAddR(DAddR(DMulR(A[i][1], B[1][j]), DMulR(A[i][2], B[2][j])), DMulR(A[i][3], B[3][j]))]]
DMatMul(A, B) == Bind2(DMatMulR, A, B)

(* the configuration: without altitude the constructor zeroes the vertical velocity (strapdown.py:118-119) *)
\* all 24 rotations of the cube: pitch quarters 0, 1, 3 (the step uses the attitude MATRIX only; Euler angles appear nowhere in it)
Ry(k) == <<<<CQ(k), 0, SQ(k)>>, <<0, 1, 0>>, <<0 - SQ(k), 0, CQ(k)>>>>
C0 == MMul(MMul(Rz(hq), Ry(pq)), Rx(rq))
VE0 == IF alt THEN vel ELSE <<vel[1], vel[2], 0>>
V(k) == DI(VE0[k])

(***************************************************************************)
(* (a) code-shaped                                                         *)
(***************************************************************************)
Omega == <<DS(3), DI(0), DS(4)>>                 \* Omega1 = RATE cos_lat, Omega2 = 0.0, Omega3 = -RATE sin_lat
RhoOf(V1, V2) == LET rho1 == DMul(V2, DS(6))                                             \* V2 / re
                     rho2 == IF TransportFlip THEN DMul(V1, DS(5)) ELSE DNeg(DMul(V1, DS(5)))  \* -V1 / rn
                 IN <<rho1, rho2, DNeg(DTimesTan(rho1))>>                                \* rho3 = -rho1 * tan_lat
ChiOf(V1, V2) == LET rho == RhoOf(V1, V2) IN [k \in 1..3 |-> DAdd(Omega[k], rho[k])]
\* gravity(lat, a) for an altitude a = alt + a1 h: its value at alt, and at first order the altitude gradient of gravity (not a basis element)
GravityAt(a) == <<FS(2), IF a[2] = FZ THEN FZ ELSE FTaint>>
\* the increments of constant signals over dt: theta = w dt, dv = f dt (+ second-order terms that C15 is about)
DvB == [k \in 1..3 |-> DMul(DI(f[k]), DT)]
Theta == [k \in 1..3 |-> DMul(DI(w[k]), DT)]
C0D == [i \in 1..3 |-> [j \in 1..3 |-> DI(C0[i][j])]]

VelocityUpdate ==
  /\ pc = "vel"
  /\ LET chi == ChiOf(V(1), V(2))
         dvn == [i \in 1..3 |-> DAdd(DAdd(DMul(C0D[i][1], DvB[1]), DMul(C0D[i][2], DvB[2])), DMul(C0D[i][3], DvB[3]))]    \* np.dot(mat_nb[j], dv[i], dv_n)
         CO(k) == IF CoriolisOnce THEN chi[k] ELSE DAdd(chi[k], Omega[k])
         n1 == DAdd(DAdd(V(1), dvn[1]),
                    DMul(DSub(DAdd(DNeg(DMul(CO(2), V(3))), DMul(CO(3), V(2))), DHalf(DSub(DMul(chi[2], dvn[3]), DMul(chi[3], dvn[2])))), DT))
         n2 == DAdd(DAdd(V(2), dvn[2]),
                    DMul(DSub(DAdd(DNeg(DMul(CO(3), V(1))), DMul(CO(1), V(3))), DHalf(DSub(DMul(chi[3], dvn[1]), DMul(chi[1], dvn[3])))), DT))
         n3 == IF alt
               THEN DAdd(DAdd(V(3), dvn[3]),
                         DMul(DAdd(DSub(DAdd(DNeg(DMul(CO(1), V(2))), DMul(CO(2), V(1))), DHalf(DSub(DMul(chi[1], dvn[2]), DMul(chi[2], dvn[1])))),
                                   GravityAt(DSub(DI(0), DMul(V(3), HalfDT)))), DT))
               ELSE DI(0)
     IN vnew' = <<n1, n2, n3>>
  /\ pc' = "mid" /\ UNCHANGED <<alt, rq, pq, hq, vel, f, w, der, vmid, pnew, cnew>>

Midpoint ==                                                      \* V = 0.5 * (V + velocity_n[j + 1])
  /\ pc = "mid"
  /\ vmid' = [k \in 1..3 |-> DHalf(DAdd(V(k), vnew[k]))]
  /\ pc' = "pos" /\ UNCHANGED <<alt, rq, pq, hq, vel, f, w, der, vnew, pnew, cnew>>

PositionUpdate ==                                                \* offsets from the old position; latitude and longitude in radians
  /\ pc = "pos"
  /\ LET rho == RhoOf(vmid[1], vmid[2])
     IN pnew' = <<DNeg(DMul(rho[2], DT)), DMul(DOverCos(rho[1]), DT), DNeg(DMul(vmid[3], DT))>>
  /\ pc' = "att" /\ UNCHANGED <<alt, rq, pq, hq, vel, f, w, der, vnew, vmid, cnew>>

\* mat_from_rotvec (series branch: the squared norm of a first-order vector is below any threshold)
RotVec(rv) ==
  LET norm2 == DAdd(DAdd(DMul(rv[1], rv[1]), DMul(rv[2], rv[2])), DMul(rv[3], rv[3]))
      cos == DSub(DI(1), DHalf(norm2))                           \* 1 - norm2 / 2 + norm4 / 24
      k1 == DSub(DI(1), DDiv(norm2, 6))                          \* 1 - norm2 / 6 + ...
      K2(x) == DSub(DHalf(x), DDiv(DMul(norm2, x), 24))          \* (0.5 - norm2 / 24 + ...) * x
      P(a, b) == K2(DMul(rv[a], rv[b]))
  IN <<<<DAdd(P(1, 1), cos), DSub(P(1, 2), DMul(k1, rv[3])), DAdd(P(1, 3), DMul(k1, rv[2]))>>,
       <<DAdd(P(2, 1), DMul(k1, rv[3])), DAdd(P(2, 2), cos), DSub(P(2, 3), DMul(k1, rv[1]))>>,
       <<DSub(P(3, 1), DMul(k1, rv[2])), DAdd(P(3, 2), DMul(k1, rv[1])), DAdd(P(3, 3), cos)>>>>

AttitudeUpdate ==
  /\ pc = "att"
  /\ LET chi == ChiOf(vmid[1], vmid[2])
         xi == [k \in 1..3 |-> DNeg(DMul(chi[k], DT))]
         dBn == RotVec(xi)
         dBb == RotVec(Theta)
     IN cnew' = DMatMul(dBn, DMatMul(C0D, dBb))                  \* np.dot(mat_nb[j], dBb, C); np.dot(dBn, C, mat_nb[j + 1])
  /\ pc' = "done" /\ UNCHANGED <<alt, rq, pq, hq, vel, f, w, der, vnew, vmid, pnew>>

(***************************************************************************)
(* (b) derived: the navigation equations, as forms                         *)
(***************************************************************************)
OmegaF == <<FS(3), FZ, FS(4)>>
RhoF == <<FScale(VE0[2], FS(6)), FScale(0 - VE0[1], FS(5)), FScale(0 - VE0[2], FS(7))>>
\* (form vector) x (integer vector)
FCrossI(a, b) == <<FSub(FScale(b[3], a[2]), FScale(b[2], a[3])), FSub(FScale(b[1], a[3]), FScale(b[3], a[1])), FSub(FScale(b[2], a[1]), FScale(b[1], a[2]))>>
CF == MVec(C0, f)
Coriolis == FCrossI([k \in 1..3 |-> FAdd(FScale(2, OmegaF[k]), RhoF[k])], VE0)
VDot == LET full == [k \in 1..3 |-> FSub(FAdd(FI(CF[k]), IF k = 3 THEN FS(2) ELSE FZ), Coriolis[k])]
        IN IF alt THEN full ELSE <<full[1], full[2], FZ>>        \* without altitude the vertical velocity is held at zero
PDot == <<FScale(VE0[1], FS(5)), FScale(VE0[2], FS(8)), FI(0 - VE0[3])>>
CW == MMul(C0, Skew(w))
OR == [k \in 1..3 |-> FAdd(OmegaF[k], RhoF[k])]
SkewF(a) == <<<<FZ, FNeg(a[3]), a[2]>>, <<a[3], FZ, FNeg(a[1])>>, <<FNeg(a[2]), a[1], FZ>>>>
CDot == LET S == SkewF(OR)
        IN [i \in 1..3 |-> [j \in 1..3 |->
              FSub(FI(CW[i][j]), FAdd(FAdd(FScale(C0[1][j], S[i][1]), FScale(C0[2][j], S[i][2])), FScale(C0[3][j], S[i][3])))]]
Derived == PDot \o VDot \o CDot[1] \o CDot[2] \o CDot[3]          \* 15 forms: lat, lon, alt, VN, VE, VD, C11 .. C33

Init == /\ alt \in BOOLEAN /\ rq \in RollQ /\ pq \in PitchQ /\ hq \in HeadQ /\ vel \in Vels /\ f \in Forces /\ w \in BodyRates
        /\ pc = "vel" /\ vnew = <<>> /\ vmid = <<>> /\ pnew = <<>> /\ cnew = <<>>
        /\ der = Derived
Emit == /\ pc = "done" /\ pc' = "emitted"
        /\ PrintT(<<"STEP", alt, rq, pq, hq, vel, f, w, der>>)
        /\ UNCHANGED <<alt, rq, pq, hq, vel, f, w, der, vnew, vmid, pnew, cnew>>
Next == VelocityUpdate \/ Midpoint \/ PositionUpdate \/ AttitudeUpdate \/ Emit
Spec == Init /\ [][Next]_vars

(***************************************************************************)
(* invariants (C01, consistency)                                           *)
(***************************************************************************)
Finished == pc = "done"          \* (one state per configuration: the invariants are evaluated once)
CodeDuals == pnew \o vnew \o cnew[1] \o cnew[2] \o cnew[3]
Start == <<0, 0, 0>> \o VE0 \o C0[1] \o C0[2] \o C0[3]
\* the first-order coefficient of the one-step map (in h = dt / 2, hence the factor 2) is the right-hand side of the navigation equations
Consistent == Finished => \A k \in 1..15 : CodeDuals[k][2] = FScale(2, der[k])
\* a step of length zero returns the state it started from
ZeroStep == Finished => \A k \in 1..15 : CodeDuals[k][1] = FI(Start[k])
\* nothing of second order in the Earth quantities, no odd half, no gravity gradient in the result
NoTaint == Finished => \A k \in 1..15 : CodeDuals[k][1][9] = 0 /\ CodeDuals[k][2][9] = 0 /\ der[k][9] = 0
\* without altitude the vertical channel is frozen (C13's clause, on the model)
Frozen2D == (Finished /\ ~alt) => vnew[3] = DI(0) /\ pnew[3] = DI(0)
\* the attitude stays a rotation to first order: C'C^T + C C'^T = 0 for the derived rate
SkewRate == Finished => \A i \in 1..3 : \A j \in 1..3 :
              FAdd(FAdd(FAdd(FScale(C0[j][1], CDot[i][1]), FScale(C0[j][2], CDot[i][2])), FScale(C0[j][3], CDot[i][3])),
                   FAdd(FAdd(FScale(C0[i][1], CDot[j][1]), FScale(C0[i][2], CDot[j][2])), FScale(C0[i][3], CDot[j][3]))) = FZ
\* gravity acts on the vertical channel only and the specific force enters through the attitude matrix only
GravityDown == Finished => VDot[1][2] = 0 /\ VDot[2][2] = 0 /\ VDot[3][2] = (IF alt THEN 1 ELSE 0) /\ \A k \in 1..3 : PDot[k][2] = 0
=============================================================================
