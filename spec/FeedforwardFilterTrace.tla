--------------------------- MODULE FeedforwardFilterTrace ---------------------------
(* Trace validation of real run_feedforward_filter executions against FeedforwardLoop.
   Same scheme as FeedbackFilterTrace. *)
EXTENDS FeedforwardLoop, TLC, Json, IOUtils

Traces == ndJsonDeserialize(IOEnv.TRACE_FILE)

VARIABLES tid, l, phase,
          Pv        \* dataflow: id (interned bit pattern, A2) of the covariance the filter must currently hold
tvars == <<vars, tid, l, phase, Pv>>

Tr == Traces[tid]
Ev == Tr.events
Obs == Tr.obs
ToSetS(s) == {s[i] : i \in 1..Len(s)}

OPts == Tr.pts
ON == Len(OPts)
OEnd == OPts[ON]
OInSpan(s) == Sorted({t \in ToSetS(Tr.meas[s]) : t >= Tr.start /\ t < OEnd})
\* rows of (z, H, R): the built-in classes give 3, Position / NedVelocity 2 without altitude; "BaroAltitude" is the harness' own
\* scalar user-defined measurement (documented extension point), used in 3D runs only
ExpWidth(s) == IF Tr.names[s] = "BaroAltitude" THEN 1 ELSE IF Tr.alt \/ Tr.names[s] = "BodyVelocity" THEN 3 ELSE 2
MLines == SelectSeq(Ev, LAMBDA e : e.a = "M")
ALines == SelectSeq(Ev, LAMBDA e : e.a = "A")
UsedEv(s) == LET ms == SelectSeq(MLines, LAMBDA e : s \in ToSetS(e.hits)) IN [k \in 1..Len(ms) |-> ms[k].t]
ORow(t) == CHOOSE k \in 1..ON : OPts[k] = t
AllTables == <<Obs.traj>> \o Obs.tables

Clauses == [
  returned   |-> Tr.returned,
  res_index  |-> \A k \in 1..Len(AllTables) :
                    /\ AllTables[k] # <<>> /\ AllTables[k][1] = OPts[1]
                    /\ StrictInc(AllTables[k])
                    /\ ToSetS(AllTables[k]) \subseteq ToSetS(OPts),
  step_bound |-> (StrictInc(Obs.traj) /\ ToSetS(Obs.traj) \subseteq ToSetS(OPts)) =>
                 \A k \in 1..(Len(Obs.traj) - 1) :
                    LET r == ORow(Obs.traj[k]) IN Obs.traj[k + 1] <= Max2(Tr.hz[r], OPts[r + 1]),
  used_once  |-> /\ Obs.keys_ok
                 /\ \A s \in 1..Tr.ns : /\ UsedEv(s) = OInSpan(s)
                                        /\ ~Obs.innov_missing[s] /\ Len(Obs.innov[s]) = Len(OInSpan(s))
                                        /\ NonDec(Obs.innov[s])
                 /\ \A k \in 1..Len(MLines) : MLines[k].corr = Len(MLines[k].hits),
  finite     |-> Obs.finite /\ \A k \in 1..Len(ALines) : ALines[k].dpos,
  \* C13 (the filter's sd clause and the measurement models' vertical row)
  frozen2d   |-> ~Tr.alt => Obs.sd_zero,
  widths     |-> /\ \A s \in 1..Tr.ns : (Obs.innov[s] # <<>>) => Obs.innov_w[s] = ExpWidth(s)
                 /\ \A k \in 1..Len(MLines) : /\ MLines[k].wok
                                              /\ \A j \in 1..Len(MLines[k].hits) :
                                                    MLines[k].w[j] = ExpWidth(MLines[k].hits[j])
]
\* ---------------------------------------------------------------- dataflow of the estimation recursion (C11, discrete part)
\* Every step of the filter must be the Kalman step of the public model: the harness keeps its own copy of what x and P must be
\* (P0 from transform_to_internal and the sensor models' P; every kalman.correct output; Phi x and Phi P Phi' + Qd after every
\* propagation, with Phi, Qd as kalman.compute_process_matrices returned them) and logs per observed call whether its inputs are
\* that value (*_ok: within 1e-9 relative - contract; ids / *_bit: bit-identical - refinement, walked line by line below).
DataflowClause ==
  Obs.flow.on =>
    /\ Obs.flow.p0_ok
    /\ \A k \in 1..Len(MLines) :
          /\ MLines[k].pva_ok        \* the measurement models see the computed trajectory interpolated AT the epoch between the bracketing rows
          /\ \A j \in 1..Len(MLines[k].c) :
                /\ MLines[k].c[j].pin_ok /\ MLines[k].c[j].xin_ok /\ MLines[k].c[j].args_ok /\ MLines[k].c[j].out_ok
    /\ \A k \in 1..Len(ALines) : ALines[k].dt_ok /\ ALines[k].fq_ok  \* propagation interval = the step the result index takes; (F, Q) = the joint
                                                                   \* system of JointSystem.tla's block terms at the mid-point state
    /\ (Obs.flow.rows_ok => Obs.flow.sd_ok /\ Obs.flow.est_ok /\ Obs.flow.comp_ok) /\ Obs.flow.innov_ok
         \* result rows: sd = sqrt(diag(T P T')), sensor tables = x blocks, compensated trajectory = computed - T x, all of the
         \* (x, P) held when the row was recorded
Failing == {c \in DOMAIN Clauses : ~Clauses[c]} \cup (IF DataflowClause THEN {} ELSE {"dataflow"})

TraceInit ==
  /\ tid \in 1..Len(Traces)
  /\ cfg = [times |-> Traces[tid].pts,
            meas  |-> [s \in 1..Traces[tid].ns |-> ToSetS(Traces[tid].meas[s])],
            hz    |-> Traces[tid].hz,
            inct  |-> ToSetS(Traces[tid].inct)]
  /\ InitLoop
  /\ Pv = Traces[tid].obs.flow.p0id
  /\ l = 1 /\ phase = "contract"

CheckContract ==
  /\ phase = "contract"
  /\ PrintT(<<"CONTRACT", Tr.tid, Failing>>)
  /\ phase' = (IF Tr.returned THEN "run" ELSE "stop")
  /\ UNCHANGED <<vars, tid, l, Pv>>

IsEvent(a) == phase = "run" /\ l <= Len(Ev) /\ Ev[l].a = a /\ l' = l + 1 /\ UNCHANGED <<tid, phase>>

TraceMeas ==
  /\ IsEvent("M")
  /\ ProcessMeas
  /\ Mts[mi] = Ev[l].t
  /\ Sorted(Hits(Mts[mi])) = Ev[l].hits
  /\ Ev[l].corr = Len(Ev[l].hits)
  /\ (Ev[l].row # 0 => (Ev[l].row = Times[index] /\ Ev[l].nrow = Times[index + 1] /\ Ev[l].aok))
  /\ LET c == Ev[l].c IN
       IF Obs.flow.on /\ c # <<>>
       THEN /\ c[1].pin = Pv /\ c[1].xin_bit
            /\ \A j \in 2..Len(c) : c[j].pin = c[j - 1].pout /\ c[j].xin = c[j - 1].xout
            /\ Pv' = c[Len(c)].pout
       ELSE UNCHANGED Pv

TraceAdvance ==
  /\ IsEvent("A")
  /\ Advance
  /\ (Ev[l].T # 0 => (Ev[l].T = Times[index] /\ Ev[l].T2 = Times[index']))
  /\ Ev[l].dpos
  /\ IF Obs.flow.on THEN Ev[l].psnap = Pv /\ Ev[l].dt_bit /\ Pv' = Ev[l].pexp ELSE UNCHANGED Pv

TraceFinish ==
  /\ phase = "run" /\ l = Len(Ev) + 1
  /\ Finish
  /\ \A k \in 1..Len(AllTables) : AllTables[k] = resT
  /\ \A s \in 1..NS : Obs.innov[s] = innovT[s]
  /\ Obs.resets = 2
  /\ TLCSet(1, TLCGet(1) + 1)
  /\ PrintT(<<"ACCEPT", Tr.tid>>)
  /\ phase' = "accepted" /\ UNCHANGED <<tid, l, Pv>>

TraceNext == CheckContract \/ TraceMeas \/ TraceAdvance \/ TraceFinish
TraceSpec == TraceInit /\ [][TraceNext]_tvars

ASSUME TLCSet(1, 0)
=============================================================================
