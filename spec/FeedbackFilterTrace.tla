--------------------------- MODULE FeedbackFilterTrace ---------------------------
(***************************************************************************)
(* Trace validation of real run_feedback_filter executions against         *)
(* FeedbackLoop.  One ndjson record per execution (harness/filt.py):       *)
(* configuration in ranks, one event per specification action, the         *)
(* observables of the returned object.  Thousands of traces per TLC run:   *)
(* the initial state picks the trace, the actions of FeedbackLoop are      *)
(* re-used with the logged fields bound, acceptance is counted.            *)
(*                                                                         *)
(* Two verdicts per trace, printed for the harness:                        *)
(*   <<"CONTRACT", tid, failing clauses>> - the property's own statement   *)
(*       evaluated on configuration and observables (C09; C12 clause 1;    *)
(*       C13).  Only this can become a VIOLATION.                          *)
(*   <<"ACCEPT", tid>> - the execution is, line by line, a behaviour of    *)
(*       the implementation-shaped model and ends in its final state.      *)
(*       Absence is MODEL-DRIFT when the contract holds.                   *)
(***************************************************************************)
EXTENDS FeedbackLoop, TLC, Json, IOUtils

Traces == ndJsonDeserialize(IOEnv.TRACE_FILE)

VARIABLES tid, l, phase,
          Pv        \* dataflow: id (interned bit pattern, A2) of the covariance the filter must currently hold
tvars == <<vars, tid, l, phase, Pv>>

Tr == Traces[tid]
Ev == Tr.events
Obs == Tr.obs
ToSetS(s) == {s[i] : i \in 1..Len(s)}

\* ---------------------------------------------------------------- contract on observables
OPts == Tr.pts
OEnd == OPts[Len(OPts)]
OInSpan(s) == Sorted({t \in ToSetS(Tr.meas[s]) : t >= Tr.start /\ t < OEnd})
ONoData == \A s \in 1..Tr.ns : OInSpan(s) = <<>>
\* rows of (z, H, R): the built-in classes give 3, Position / NedVelocity 2 without altitude; "BaroAltitude" is the harness' own
\* scalar user-defined measurement (documented extension point), used in 3D runs only
ExpWidth(s) == IF Tr.names[s] = "BaroAltitude" THEN 1 ELSE IF Tr.alt \/ Tr.names[s] = "BodyVelocity" THEN 3 ELSE 2
MLines == SelectSeq(Ev, LAMBDA e : e.a = "M")

Clauses == [
  returned   |-> Tr.returned,
  traj_index |-> Obs.traj = OPts,
  innov_once |-> /\ Obs.keys_ok
                 /\ \A s \in 1..Tr.ns : ~Obs.innov_missing[s] /\ Obs.innov[s] = OInSpan(s),
  tables     |-> \A k \in 1..Len(Obs.tables) :
                    /\ StrictInc(Obs.tables[k])
                    /\ ToSetS(Obs.tables[k]) \subseteq ToSetS(Obs.traj)
                    /\ Obs.tables[k] # <<>>,
  finite     |-> Obs.finite,
  \* C12 clause 1
  transparent |-> ONoData => Obs.plain_eq,
  \* C13
  frozen2d   |-> ~Tr.alt => /\ Obs.vd_zero /\ Obs.alt_frozen /\ Obs.sd_zero
                            /\ \A k \in 1..Len(MLines) : MLines[k].vd0 /\ MLines[k].setvd0 /\ MLines[k].altsame,
  widths     |-> /\ \A s \in 1..Tr.ns : (Obs.innov[s] # <<>>) => Obs.innov_w[s] = ExpWidth(s)
                 /\ \A k \in 1..Len(MLines) : /\ MLines[k].wok
                                              /\ \A j \in 1..Len(MLines[k].hits) :
                                                    MLines[k].w[j] = ExpWidth(MLines[k].hits[j])
]
\* ---------------------------------------------------------------- dataflow of the estimation recursion (C12 clause 2, discrete part)
\* The harness keeps its own copy of what P and x must be (initial covariance from the public transform_to_internal, every
\* kalman.correct output, Phi P Phi' + Qd after every propagation) and logs per observed call whether its inputs are that value:
\* *_ok = within 1e-9 relative (contract), *_bit / ids = bit-identical (refinement, walked line by line below).
ALines == SelectSeq(Ev, LAMBDA e : e.a = "A")
DataflowClause ==
  Obs.flow.on =>
    /\ Obs.flow.p0_ok                                            \* initial covariance = T diag(sd^2) T' (+) sensor-model P blocks
    /\ \A k \in 1..Len(MLines) :
          /\ \A j \in 1..Len(MLines[k].c) :
                /\ MLines[k].c[j].pin_ok                          \* every correction starts from the CURRENT covariance
                /\ MLines[k].c[j].xin_ok                          \* ... and error vector (zeros at the start of an epoch: errors were fed back)
                /\ MLines[k].c[j].args_ok                         \* (z, H in the INS block and zero elsewhere, R) as the measurement model returned them
                /\ MLines[k].c[j].out_ok                          \* ... and what comes back is the conditional mean / covariance (numeric predicate, 1e-6)
          /\ MLines[k].set_ok                                     \* the state fed back is correct_pva(CURRENT integrator state, x[INS block])
          /\ MLines[k].upd_ok                                     \* the sensor estimates get the gyro / accel blocks of the same x
          /\ MLines[k].pred_ok                                    \* the state at the epoch is predicted with the fraction (epoch - T) / dt of the corrected next increment
    /\ \A k \in 1..Len(ALines) : ALines[k].inc_ok           \* the integrator gets the raw increments corrected by the CURRENT sensor estimates
    /\ \A k \in 1..Len(ALines) : ALines[k].dt_ok /\ ALines[k].fq_ok  \* P is propagated over exactly the interval the integrator advanced, with the
                                                                   \* joint system (F, Q) of JointSystem.tla's block terms at the mid-point state
    /\ (Obs.flow.rows_ok => Obs.flow.sd_ok /\ Obs.flow.est_ok) /\ Obs.flow.innov_ok  \* sd / estimate tables are the values held at the recorded loop times
Failing == {c \in DOMAIN Clauses : ~Clauses[c]} \cup (IF DataflowClause THEN {} ELSE {"dataflow"})

\* ---------------------------------------------------------------- refinement, line by line
TraceInit ==
  /\ tid \in 1..Len(Traces)
  /\ cfg = [start |-> Traces[tid].start,
            imu   |-> Tail(Traces[tid].pts),
            meas  |-> [s \in 1..Traces[tid].ns |-> ToSetS(Traces[tid].meas[s])],
            hz    |-> Traces[tid].hz]
  /\ InitLoop
  /\ Pv = Traces[tid].obs.flow.p0id
  /\ l = 1 /\ phase = "contract"

CheckContract ==
  /\ phase = "contract"
  /\ PrintT(<<"CONTRACT", Tr.tid, Failing>>)
  /\ phase' = (IF Tr.returned THEN "run" ELSE "stop")
  /\ UNCHANGED <<vars, tid, l, Pv>>

IsEvent(a) == phase = "run" /\ l <= Len(Ev) /\ Ev[l].a = a /\ l' = l + 1 /\ UNCHANGED <<tid, phase>>

TraceMeas ==
  /\ IsEvent("M")
  /\ ProcessMeas
  /\ Mts[mi] = Ev[l].t
  /\ Sorted(Hits(Mts[mi])) = Ev[l].hits
  /\ Ev[l].corr = Len(Ev[l].hits) /\ Ev[l].set = 1 /\ Ev[l].upd = 2
  /\ Ev[l].pfrom = T /\ Ev[l].psign >= 0
  /\ LET c == Ev[l].c IN
       IF Obs.flow.on /\ c # <<>>
       THEN /\ c[1].pin = Pv
            /\ \A j \in 2..Len(c) : c[j].pin = c[j - 1].pout /\ c[j].xin = c[j - 1].xout
            /\ Ev[l].set_bit
            /\ Pv' = c[Len(c)].pout
       ELSE UNCHANGED Pv

TraceAdvance ==
  /\ IsEvent("A")
  /\ Advance
  /\ Ev[l].T = T /\ Ev[l].T2 = T'
  /\ Ev[l].batch = SubSeq(traj', Len(traj) + 1, Len(traj'))
  /\ Ev[l].dpos
  /\ IF Obs.flow.on THEN Ev[l].psnap = Pv /\ Ev[l].dt_bit /\ Pv' = Ev[l].pexp ELSE UNCHANGED Pv

TraceFinish ==
  /\ phase = "run" /\ l = Len(Ev) + 1
  /\ Finish
  /\ Obs.traj = <<cfg.start>> \o traj
  /\ \A k \in 1..Len(Obs.tables) : Obs.tables[k] = sdT
  /\ \A s \in 1..NS : Obs.innov[s] = innov[s]
  /\ Obs.flags \in {<<>>, <<"predict">>}
  /\ Obs.resets = 2
  /\ TLCSet(1, TLCGet(1) + 1)
  /\ PrintT(<<"ACCEPT", Tr.tid>>)
  /\ phase' = "accepted" /\ UNCHANGED <<tid, l, Pv>>

TraceNext == CheckContract \/ TraceMeas \/ TraceAdvance \/ TraceFinish
TraceSpec == TraceInit /\ [][TraceNext]_tvars

ASSUME TLCSet(1, 0)
\* every invariant of the model is evaluated at every step of every real execution
Done == TRUE
=============================================================================
