--------------------------- MODULE ApiTrace ---------------------------
(***************************************************************************)
(* Validation of real executions of API programs (harness/api_exec.py)     *)
(* against Api.tla.  Every logged call is re-played as the Call action of  *)
(* Api (so the specification assigns each object its content TERM), and    *)
(* the bit fingerprints the harness recorded must make                     *)
(*        term -> fingerprint                                              *)
(* a FUNCTION at every step:                                               *)
(*   not_modified   an argument outside mut(f) has the same fingerprint    *)
(*                  after the call as before (as passed, and in the pool)  *)
(*   hidden_state   an object whose term did not change since it was last  *)
(*                  seen still has the fingerprint it had then             *)
(*   deterministic  a result with a term (and forms) seen before has the   *)
(*                  fingerprint it had then - equal inputs and equal seed, *)
(*                  whatever was called in between                         *)
(*   forms_agree    the call in these forms gives the values of the        *)
(*                  canonical-form call (logged predicate, rtol 1e-12)     *)
(*                  - this includes: a form that raises while the          *)
(*                  canonical form of the same input is accepted           *)
(*   schema         returned tables carry the documented schema            *)
(* A call that raises in its canonical form is outside the property (the   *)
(* input may be meaningless, e.g. position fixes on the other side of the  *)
(* planet); the program ends there and the evidence counts such calls.     *)
(***************************************************************************)
EXTENDS Api, Json, IOUtils

Traces == ndJsonDeserialize(IOEnv.TRACE_FILE)

VARIABLES tid, l, seen, failing
tvars == <<vars, tid, l, seen, failing>>

Tr == Traces[tid]
St == Tr.steps
ToSetS(s) == {s[i] : i \in 1..Len(s)}
Lookup(key) == {p[2] : p \in {q \in seen : q[1] = key}}

TraceInit == /\ tid \in 1..Len(Traces) /\ Init /\ l = 1 /\ seen = {} /\ failing = {}

\* a process executes many programs one after the other: the pool starts afresh for each, what was observed is remembered
\* (hidden state that survives from one program to the next is still hidden state)
Reset ==
  /\ l <= Len(St) /\ St[l].kind = "reset"
  /\ pool' = BaseObjects /\ prog' = <<>>
  /\ l' = l + 1 /\ UNCHANGED <<tid, seen, failing>>

Step ==
  /\ l <= Len(St) /\ St[l].kind = "call"
  /\ LET e    == St[l]
         f    == e.f
         args == e.args
         n    == Len(prog) + 1
         argkeys == [i \in 1..Len(args) |-> <<"obj", pool[args[i]].term>>]
         reskeys == [j \in 1..Len(e.res) |-> <<"res", <<"res", f, Terms(args), e.seed, j>>, e.forms>>]
         notmod  == \A i \in 1..Len(args) : (i \notin Table[f].mut) =>
                       (e.before[i] = e.after[i] /\ e.pool_before[i] = e.pool_after[i])
         hidden  == \A i \in 1..Len(args) : Lookup(argkeys[i]) \subseteq {e.pool_before[i]}
         determ  == \A j \in 1..Len(e.res) : Lookup(reskeys[j]) \subseteq {e.res[j]}
         bad     == (IF notmod THEN {} ELSE {"not_modified"}) \cup (IF hidden THEN {} ELSE {"hidden_state"})
                    \cup (IF determ THEN {} ELSE {"deterministic"}) \cup (IF e.agree THEN {} ELSE {"forms_agree"})
                    \cup (IF e.schema THEN {} ELSE {"schema"})
     IN /\ Call(f, args, e.forms, e.seed)
        /\ Len(e.res) = (IF e.exc = "" THEN Len(Table[f].res) ELSE 0) \/ e.exc # ""
        /\ failing' = failing \cup {<<b, l>> : b \in bad}
        \* remember what was observed: arguments after the call under their NEW terms, results under theirs
        /\ seen' = seen \cup {<<<<"obj", pool'[args[i]].term>>, e.pool_after[i]>> : i \in 1..Len(args)}
                        \cup {<<reskeys[j], e.res[j]>> : j \in 1..Len(e.res)}
                        \cup {<<<<"obj", <<"res", f, Terms(args), prog'[n].seed, j>>>>, e.res[j]>> : j \in 1..Len(e.res)}
  /\ l' = l + 1 /\ UNCHANGED tid

Finish ==
  /\ l = Len(St) + 1
  /\ PrintT(<<"API", Tr.tid, failing>>)
  /\ l' = l + 1 /\ UNCHANGED <<vars, tid, seen, failing>>

TraceNext == Reset \/ Step \/ Finish
TraceSpec == TraceInit /\ [][TraceNext]_tvars
=============================================================================
