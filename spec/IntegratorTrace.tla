--------------------------- MODULE IntegratorTrace ---------------------------
(***************************************************************************)
(* Trace validation of real Integrator call histories (harness/integ.py,   *)
(* record_episode) against Integrator.tla.  All traces of one file share   *)
(* the constants N, Cap0, WithAlt.  A record holds the operations, after   *)
(* every operation the interned bit patterns (A2) of every trajectory row  *)
(* and of the returned rows, and the oracle table orc[b+1][c+1]: the       *)
(* pattern single-shot integration of c increments from the b-th supplied  *)
(* state gives on a fresh object (porc for predict's possibly scaled row). *)
(* Everything bound here is contract-level (bit identity with the oracle   *)
(* IS property C02), so a rejected trace is a violation; the capacity is   *)
(* compared separately and only reported (CAPDRIFT).                       *)
(***************************************************************************)
EXTENDS Integrator, TLC, Json, IOUtils

Traces == ndJsonDeserialize(IOEnv.TRACE_FILE)
VARIABLES tid, l
tvars == <<vars, tid, l>>
Tr == Traces[tid]
Ops == Tr.ops

IsPred(r) == r.incs # <<>> /\ (r.incs[Len(r.incs)] < 0 \/ r.incs[Len(r.incs)] # Len(r.incs) + Tr.baserow[r.base + 1] - 1)
POrc(r) == LET S == {k \in 1..Len(Tr.porc) : /\ Tr.porc[k].b = r.base /\ Tr.porc[k].c = Len(r.incs) - 1
                                             /\ Tr.porc[k].i = r.incs[Len(r.incs)]}
           IN IF S = {} THEN -1 ELSE Tr.porc[CHOOSE k \in S : TRUE].id
OrcId(r) == IF IsPred(r) THEN POrc(r) ELSE Tr.orc[r.base + 1][Len(r.incs) + 1]

ObsMatches(o, rws, rt) ==
  /\ o.n = Len(rws)
  /\ \A j \in 1..Len(rws) : o.rows[j] = OrcId(rws[j])
  /\ Len(o.ret) = Len(rt)
  /\ \A j \in 1..Len(rt) : o.ret[j] = OrcId(rt[j])
  /\ o.times = [j \in 1..Len(rws) |-> j - 1]
  /\ o.cap >= Len(rws)
  /\ o.pure
  /\ (~WithAlt => /\ \A j \in 1..Len(rws) : o.vdz[j] /\ o.alts[j] = Tr.basealt[rws[j].altOf + 1]
                  /\ o.retvdz
                  /\ \A j \in 1..Len(rt) : o.retalts[j] = Tr.basealt[rt[j].altOf + 1])

TraceInit ==
  /\ tid \in 1..Len(Traces)
  /\ Init
  /\ rows[1].vd0 = (IF WithAlt THEN Traces[tid].initvdz ELSE TRUE)
  /\ l = 1

Step(o) ==
  /\ l <= Len(Ops) /\ Ops[l] = o
  /\ \/ o.op = "I" /\ Integrate(o.k)
     \/ o.op = "P" /\ Predict(o.i, o.sc)
     \/ o.op = "S" /\ SetPva(o.vdz, o.how)
     \/ o.op = "G" /\ Get
  /\ ObsMatches(o.obs, rows', ret')
  /\ (cap' # o.obs.cap => PrintT(<<"CAPDRIFT", Tr.tid, l, cap', o.obs.cap>>))
  /\ l' = l + 1 /\ UNCHANGED tid

TraceStep == \E k \in {l} : k <= Len(Ops) /\ Step(Ops[k])

Accept ==
  /\ l = Len(Ops) + 1
  /\ TLCSet(1, TLCGet(1) + 1)
  /\ PrintT(<<"ACCEPT", Tr.tid>>)
  /\ l' = l + 1 /\ UNCHANGED <<vars, tid>>

TraceNext == TraceStep \/ Accept
TraceSpec == TraceInit /\ [][TraceNext]_tvars
\* how far each trace got: the harness reads the largest l printed per tid when a trace is not accepted
Reached == l > 1 => PrintT(<<"AT", Tr.tid, l>>)
ASSUME TLCSet(1, 0)
=============================================================================
