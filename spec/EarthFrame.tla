--------------------------- MODULE EarthFrame ---------------------------
(***************************************************************************)
(* The local NED frame and the Earth-fixed frame at the CARDINAL points of *)
(* the ellipsoid (C16, the exact part): latitude in {-90, 0, 90}, longitude*)
(* in {0, 90, 180, -90} degrees, where every matrix is a signed            *)
(* permutation matrix and every direction a signed unit vector.            *)
(*                                                                         *)
(* The geometry is stated independently of the Euler sequence the code     *)
(* uses (transform.py:479-505: Rz(lon) Ry(-90 - lat)):                     *)
(*   DownIsMinusNormal   the third column of C_en (down, in ECEF) is minus *)
(*                       the ellipsoid normal (cos lat cos lon,            *)
(*                       cos lat sin lon, sin lat);                        *)
(*   EastIsZCrossUp      the second column (east) is (-sin lon, cos lon,   *)
(*                       0) - perpendicular to the polar axis and to up;   *)
(*   NorthCompletes      north = east x down (a right-handed NED triad;    *)
(*                       its polar component is cos lat >= 0: towards the  *)
(*                       north pole);                                      *)
(*   Proper.                                                               *)
(* Consequences the library relies on, as invariants:                      *)
(*   EarthRateInNed      C_en' (0,0,1) = (cos lat, 0, -sin lat): the       *)
(*                       direction of earth.rate_n;                        *)
(*   ParityLaw           mirroring in the equatorial plane S = diag(1,1,-1)*)
(*                       gives C_en(-lat) = S C_en(lat) diag(-1,1,1):      *)
(*                       north flips, east and down mirror - which is why  *)
(*                       gravity and the radii are even in latitude, the   *)
(*                       vertical Earth-rate component odd;                *)
(*   PositionOnAxis      the ECEF position at a cardinal point lies on the *)
(*                       coordinate axis of its normal: (Req + h) or       *)
(*                       (Rpol + h) times the normal (printed as a signed  *)
(*                       unit vector, the radius is the replay's business).*)
(* Bound to the code: mat_en_from_ll, lla_to_ecef, ecef_to_lla, rate_n,    *)
(* gravity_n, gravitation_ecef at the same points; the harness adds        *)
(* labelled numeric predicates at seeded general points (no external       *)
(* oracle: closed forms of the statements above, difference quotients of   *)
(* lla_to_ecef, cross-consistency between the representations).            *)
(***************************************************************************)
EXTENDS FirstOrder

VARIABLES latq, lonq, emitted          \* quarter turns: latq in {3, 0, 1} = -90, 0, 90 degrees; lonq in 0..3
vars == <<latq, lonq, emitted>>

Ry(k) == <<<<CQ(k), 0, SQ(k)>>, <<0, 1, 0>>, <<0 - SQ(k), 0, CQ(k)>>>>
\* the code: Rotation.from_euler('ZY', [lon, -90 - lat]) = Rz(lon) Ry(-90 - lat);  -90 - lat in quarter turns is 3 - latq
Cen(la, lo) == MMul(Rz(lo), Ry((3 - la + 4) % 4))
C == Cen(latq, lonq)
Normal(la, lo) == <<CQ(la) * CQ(lo), CQ(la) * SQ(lo), SQ(la)>>
NegV(v) == [i \in 1..3 |-> 0 - v[i]]
Mirror == <<<<1, 0, 0>>, <<0, 1, 0>>, <<0, 0, -1>>>>
FlipNorth == <<<<-1, 0, 0>>, <<0, 1, 0>>, <<0, 0, 1>>>>
NegLat(la) == (4 - la) % 4
Det3(X) == X[1][1] * (X[2][2] * X[3][3] - X[2][3] * X[3][2]) - X[1][2] * (X[2][1] * X[3][3] - X[2][3] * X[3][1])
           + X[1][3] * (X[2][1] * X[3][2] - X[2][2] * X[3][1])

Init == latq \in {3, 0, 1} /\ lonq \in 0..3 /\ emitted = FALSE
Emit == /\ ~emitted /\ emitted' = TRUE
        /\ PrintT(<<"EARTH", latq, lonq, C, Normal(latq, lonq), MVec(Tr(C), <<0, 0, 1>>)>>)
        /\ UNCHANGED <<latq, lonq>>
Next == Emit
Spec == Init /\ [][Next]_vars

Proper == MMul(C, Tr(C)) = I3 /\ Det3(C) = 1
DownIsMinusNormal == Col(C, 3) = NegV(Normal(latq, lonq))
EastIsZCrossUp == Col(C, 2) = <<0 - SQ(lonq), CQ(lonq), 0>>
NorthCompletes == Col(C, 1) = Cross(Col(C, 2), Col(C, 3)) /\ Col(C, 1)[3] = CQ(latq) /\ CQ(latq) >= 0
EarthRateInNed == MVec(Tr(C), <<0, 0, 1>>) = <<CQ(latq), 0, 0 - SQ(latq)>>
ParityLaw == Cen(NegLat(latq), lonq) = MMul(Mirror, MMul(C, FlipNorth))
\* east does not depend on latitude; at the poles the frame still follows the longitude
EastIndependentOfLatitude == \A la \in {3, 0, 1} : Col(Cen(la, lonq), 2) = Col(C, 2)
=============================================================================
