------------------------------- MODULE Smooth -------------------------------
(***************************************************************************)
(* Index algebra of transform.smooth_state (transform.py:386-476): resample *)
(* onto a uniform grid, causal FIR filter, drop the rows that saw the zero *)
(* padding, shift the index by the group delay, resample back onto the     *)
(* original stamps.  Extended coverage (no listed property is about        *)
(* smoothing; the resampling steps are C18's resample_state).              *)
(*                                                                         *)
(* Time stamps are integers (multiples of a lattice unit); a row of a      *)
(* table is its stamp plus its SUPPORT: the set of <<grid row, tap>> pairs  *)
(* whose products sum to its value (grid row 0 or below = the zero padding *)
(* of lfilter).  The values themselves are not modelled: the harness       *)
(* evaluates the printed supports with the real taps on the real data.     *)
(*                                                                         *)
(* Code-shaped: five actions, one per statement of smooth_state.           *)
(* Contract (derived, nothing of the pipeline): the output has a row for   *)
(* exactly the original stamps whose CENTRED window [t - k dt, t + k dt]    *)
(* lies inside the uniform grid, and the value is the tap-weighted mean of *)
(* the (interpolated) signal over that window - no edge effect, no delay.  *)
(***************************************************************************)
EXTENDS Integers, Sequences, FiniteSets, FiniteSetsExt, SequencesExt, TLC

CONSTANTS MaxT,         \* original stamps are a subset of 0..MaxT containing 0
          Ks,           \* half-widths of the filter (num_taps = 2 k + 1)
          DropAll,      \* TRUE = the code (num_taps - 1 rows dropped); FALSE = only the group delay dropped: must be rejected (edge effect)
          Shifted       \* TRUE = the code (index shifted by the group delay); FALSE: must be rejected (delayed output)

VARIABLES T, k, pc, rows, sup
vars == <<T, k, pc, rows, sup>>

LastOf(S) == Max(S)
Gaps(S) == {b - a : <<a, b>> \in {p \in S \X S : p[1] < p[2] /\ ~\E c \in S : p[1] < c /\ c < p[2]}}
Dt == Min(Gaps(T))
\* np.arange(t0, t_last, dt): t0 + i dt < t_last
Grid == [i \in 1..((LastOf(T) + Dt - 1) \div Dt) |-> (i - 1) * Dt]
NT == 2 * k + 1

\* exact domain: the stamps are multiples of the smallest gap (so that resampling back picks rows, not mixtures)
Init == /\ T \in {S \in SUBSET (0..MaxT) : 0 \in S /\ Cardinality(S) >= 2 /\ \A t \in S : t % Min(Gaps(S)) = 0}
        /\ k \in Ks /\ pc = "resample" /\ rows = <<>> /\ sup = <<>>

ResampleToGrid ==            \* resample_state(state, arange(...)): every grid time lies inside the span, so every grid row exists
  /\ pc = "resample"
  /\ rows' = Grid
  /\ sup' = [i \in 1..Len(Grid) |-> {<<i, -1>>}]          \* tap -1: the interpolated sample itself
  /\ pc' = "filter" /\ UNCHANGED <<T, k>>
Filter ==                    \* signal.lfilter(h, 1, data): y[i] = sum_j h[j] x[i - j], zero initial state
  /\ pc = "filter"
  /\ sup' = [i \in 1..Len(rows) |-> {<<i - j, j>> : j \in 0..(NT - 1)}]
  /\ pc' = "drop" /\ UNCHANGED <<T, k, rows>>
Drop ==                      \* smoothed.iloc[num_taps - 1:]
  /\ pc = "drop"
  /\ LET d == IF DropAll THEN NT - 1 ELSE NT \div 2
         n == IF Len(rows) > d THEN Len(rows) - d ELSE 0
     IN /\ rows' = [i \in 1..n |-> rows[i + d]]
        /\ sup' = [i \in 1..n |-> sup[i + d]]
  /\ pc' = "shift" /\ UNCHANGED <<T, k>>
Shift ==                     \* smoothed.index -= dt * (num_taps // 2)
  /\ pc = "shift"
  /\ rows' = [i \in 1..Len(rows) |-> rows[i] - (IF Shifted THEN Dt * (NT \div 2) ELSE 0)]
  /\ pc' = "back" /\ UNCHANGED <<T, k, sup>>
ResampleBack ==              \* resample_state(smoothed, state.index): stamps outside the smoothed span are discarded; the stamps are
  /\ pc = "back"             \* multiples of dt from t0, so each kept stamp coincides with one smoothed row
  /\ LET keep == IF Len(rows) = 0 THEN {} ELSE {t \in T : rows[1] <= t /\ t <= rows[Len(rows)]}
         seq == SetToSortSeq(keep, LAMBDA a, b : a < b)
         rowAt(t) == CHOOSE i \in 1..Len(rows) : rows[i] = t
     IN /\ \A t \in keep : \E i \in 1..Len(rows) : rows[i] = t
        /\ rows' = seq
        /\ sup' = [i \in 1..Len(seq) |-> sup[rowAt(seq[i])]]
  /\ pc' = "done" /\ UNCHANGED <<T, k>>
Emit == /\ pc = "done" /\ pc' = "emitted"
        /\ PrintT(<<"SMOOTH", T, k, Dt, rows, [i \in 1..Len(rows) |-> Min({p[1] : p \in sup[i]})]>>)
        /\ UNCHANGED <<T, k, rows, sup>>
Next == ResampleToGrid \/ Filter \/ Drop \/ Shift \/ ResampleBack \/ Emit
Spec == Init /\ [][Next]_vars

(* contract *)
GridIndex(t) == t \div Dt + 1
Finished == pc \in {"done", "emitted"}
GLast == Grid[Len(Grid)]
Expected == {t \in T : k * Dt <= t /\ t + k * Dt <= GLast}
\* the output has a row for exactly the original stamps whose centred window lies inside the uniform grid
OutputStamps == Finished => {rows[i] : i \in 1..Len(rows)} = Expected
\* each value is the tap-weighted sum over the centred window: tap j multiplies the sample k - j steps after the stamp (no delay)
Centred == Finished => \A i \in 1..Len(rows) : sup[i] = {<<GridIndex(rows[i] + (k - j) * Dt), j>> : j \in 0..(NT - 1)}
\* no value saw the zero padding of the filter
NoEdgeEffect == Finished => \A i \in 1..Len(rows) : \A p \in sup[i] : p[1] >= 1 /\ p[1] <= Len(Grid)
Increasing == \A i \in 1..(Len(rows) - 1) : rows[i] < rows[i + 1]
=============================================================================
