--------------------------- MODULE FilterRuns ---------------------------
(***************************************************************************)
(* Sequences of filter runs that share sensor-model objects (C12 clause 3; *)
(* the documented exception of C19: a filter mutates only the estimate     *)
(* state of the models handed to it).                                      *)
(*                                                                         *)
(* A model pair m carries an estimate state est[m]; <<>> is the reset      *)
(* state.  Kinds: "fb" feedback, "ff" feedforward, "fb0" feedback with no   *)
(* measurement inside the span.                                            *)
(* A model pair m carries an estimate state est[m]; <<>> is the reset      *)
(* state.  What a run computes is a symbolic term of its arguments and of  *)
(* the estimate state it STARTS from; both filters begin with              *)
(* reset_estimates() (filters.py:277-278, 437-441), so with Resets = TRUE  *)
(* the start state is always <<>>.  Poke models anything else that leaves  *)
(* estimates behind (a user calling update_estimates, an aborted run).     *)
(* Resets = FALSE is the variant with the reset calls deleted.             *)
(***************************************************************************)
EXTENDS Integers, Sequences

CONSTANTS Kinds, Datasets, Models, MaxRuns, Resets

VARIABLES est, runs, pokes
vars == <<est, runs, pokes>>

Init == est = [m \in Models |-> <<>>] /\ runs = <<>> /\ pokes = 0

Run(k, d, m) ==
  /\ Len(runs) < MaxRuns
  /\ LET prior  == IF Resets THEN <<>> ELSE est[m]
         \* "fb0" is a feedback run without any measurement inside the span: started from reset estimates it IS plain
         \* strapdown integration of the data set (C12 clause 1), whatever the model objects went through before
         result == IF k = "fb0" /\ prior = <<>> THEN <<"plain", d>> ELSE <<k, d, prior>>
     IN /\ runs' = Append(runs, [kind |-> k, data |-> d, model |-> m, result |-> result])
        /\ est' = [est EXCEPT ![m] = <<"after", k, d, prior>>]
  /\ UNCHANGED pokes

Poke(m) ==
  /\ pokes < 2 /\ Len(runs) < MaxRuns
  /\ est' = [est EXCEPT ![m] = <<"poked", pokes>>]
  /\ pokes' = pokes + 1
  /\ UNCHANGED runs

RunAct == \E k \in Kinds, d \in Datasets, m \in Models : Run(k, d, m)
PokeAct == \E m \in Models : Poke(m)
Next == RunAct \/ PokeAct
Spec == Init /\ [][Next]_vars

\* re-running a filter on the same data reproduces the result, whatever happened to the model objects in between
RunsIndependent ==
  \A i, j \in 1..Len(runs) :
     (runs[i].kind = runs[j].kind /\ runs[i].data = runs[j].data) => runs[i].result = runs[j].result
\* a data-free feedback run is transparent also when it re-uses model objects that carry estimates
TransparentRerun == \A i \in 1..Len(runs) : runs[i].kind = "fb0" => runs[i].result = <<"plain", runs[i].data>>
\* a run leaves its own estimates behind (the only permitted side effect)
LeavesEstimates == \A m \in Models :
     (\E i \in 1..Len(runs) : runs[i].model = m) => est[m] # <<>>
=============================================================================
