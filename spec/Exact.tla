--------------------------- MODULE Exact ---------------------------
(***************************************************************************)
(* Exact rational arithmetic (abstraction A4): a rational is a normalised  *)
(* pair <<num, den>>, den > 0, gcd = 1; matrices are sequences of rows.    *)
(* TLC integers are 32-bit and overflow is an error, not a wrap-around;    *)
(* the instance families are sized accordingly.                            *)
(*                                                                         *)
(* Evaluation discipline: in state-level contexts TLC re-evaluates an      *)
(* operator ARGUMENT at every reference to the parameter and builds        *)
(* function values lazily, which makes nested matrix expressions           *)
(* exponentially expensive.  Every operator here therefore binds its       *)
(* arguments to values first (Bind1/2/3: quantification over a singleton   *)
(* set evaluates the argument once) and returns an eagerly evaluated       *)
(* value (TLCEval).                                                        *)
(***************************************************************************)
EXTENDS Integers, Sequences, TLC

Bind1(F(_), a0) == CHOOSE r \in {TLCEval(F(a)) : a \in {a0}} : TRUE
Bind2(F(_, _), a0, b0) == CHOOSE r \in {TLCEval(F(a, b)) : a \in {a0}, b \in {b0}} : TRUE
Bind3(F(_, _, _), a0, b0, c0) == CHOOSE r \in {TLCEval(F(a, b, c)) : a \in {a0}, b \in {b0}, c \in {c0}} : TRUE

Abs(x) == IF x < 0 THEN -x ELSE x
RECURSIVE Gcd(_, _)
Gcd(x, y) == IF y = 0 THEN x ELSE Gcd(y, x % y)
Norm(n, d) == LET g == Gcd(Abs(n), Abs(d))  s == IF d < 0 THEN -1 ELSE 1
              IN IF n = 0 THEN <<0, 1>> ELSE <<(s * n) \div g, (s * d) \div g>>
Q(k) == <<k, 1>>
\* over the least common denominator (keeps intermediate products small when denominators are shared)
RAdd_(p, q) == LET g == Gcd(p[2], q[2]) IN Norm(p[1] * (q[2] \div g) + q[1] * (p[2] \div g), (p[2] \div g) * q[2])
RSub_(p, q) == LET g == Gcd(p[2], q[2]) IN Norm(p[1] * (q[2] \div g) - q[1] * (p[2] \div g), (p[2] \div g) * q[2])
\* cross-cancel first: keeps products small
RMul_(p, q) == IF p[1] = 0 \/ q[1] = 0 THEN <<0, 1>>
               ELSE LET g1 == Gcd(Abs(p[1]), q[2])  g2 == Gcd(Abs(q[1]), p[2])
                    IN <<(p[1] \div g1) * (q[1] \div g2), (p[2] \div g2) * (q[2] \div g1)>>
RInv_(p) == IF p[1] < 0 THEN <<-p[2], -p[1]>> ELSE <<p[2], p[1]>>
RAdd(p, q) == Bind2(RAdd_, p, q)
RSub(p, q) == Bind2(RSub_, p, q)
RMul(p, q) == Bind2(RMul_, p, q)
RInv(p) == Bind1(RInv_, p)
RDiv_(p, q) == RMul_(p, RInv_(q))
RDiv(p, q) == Bind2(RDiv_, p, q)
RNeg_(p) == <<-p[1], p[2]>>
RNeg(p) == Bind1(RNeg_, p)
RLe(p, q) == LET L(a, b) == a[1] * b[2] <= b[1] * a[2] IN Bind2(L, p, q)
RSgn_(p) == IF p[1] > 0 THEN 1 ELSE IF p[1] < 0 THEN -1 ELSE 0
RSgn(p) == Bind1(RSgn_, p)
Zero == <<0, 1>>
One == <<1, 1>>

\* sum of the first k entries of a sequence of rationals (s is a VALUE: callers pass bound variables or TLCEval'd sequences)
RECURSIVE SumSeq_(_, _)
SumSeq_(s, k) == IF k = 0 THEN Zero ELSE RAdd(s[k], SumSeq_(s, k - 1))
SumSeq(s) == LET F(v) == SumSeq_(v, Len(v)) IN Bind1(F, s)

Rows(M) == Len(M)
Cols(M) == IF Len(M) = 0 THEN 0 ELSE Len(M[1])
MOfInt_(M) == [i \in 1..Len(M) |-> [j \in 1..Len(M[i]) |-> Q(M[i][j])]]
MOfInt(M) == Bind1(MOfInt_, M)
VOfInt_(v) == [i \in 1..Len(v) |-> Q(v[i])]
VOfInt(v) == Bind1(VOfInt_, v)
MT_(M) == [j \in 1..Cols(M) |-> [i \in 1..Rows(M) |-> M[i][j]]]
MT(M) == Bind1(MT_, M)
MAdd_(M, N) == [i \in 1..Rows(M) |-> [j \in 1..Cols(M) |-> RAdd_(M[i][j], N[i][j])]]
MAdd(M, N) == Bind2(MAdd_, M, N)
MSub_(M, N) == [i \in 1..Rows(M) |-> [j \in 1..Cols(M) |-> RSub_(M[i][j], N[i][j])]]
MSub(M, N) == Bind2(MSub_, M, N)
MScale_(c, M) == [i \in 1..Rows(M) |-> [j \in 1..Cols(M) |-> RMul_(c, M[i][j])]]
MScale(c, M) == Bind2(MScale_, c, M)
MMul_(M, N) == [i \in 1..Rows(M) |-> [j \in 1..Cols(N) |-> SumSeq([k \in 1..Cols(M) |-> RMul_(M[i][k], N[k][j])])]]
MMul(M, N) == Bind2(MMul_, M, N)
MVec_(M, v) == [i \in 1..Rows(M) |-> SumSeq([k \in 1..Len(v) |-> RMul_(M[i][k], v[k])])]
MVec(M, v) == Bind2(MVec_, M, v)
VAdd_(u, v) == [i \in 1..Len(u) |-> RAdd_(u[i], v[i])]
VAdd(u, v) == Bind2(VAdd_, u, v)
VSub_(u, v) == [i \in 1..Len(u) |-> RSub_(u[i], v[i])]
VSub(u, v) == Bind2(VSub_, u, v)
Ident(n) == TLCEval([i \in 1..n |-> [j \in 1..n |-> IF i = j THEN One ELSE Zero]])
ZeroM(n, m) == TLCEval([i \in 1..n |-> [j \in 1..m |-> Zero]])
\* sub-matrix on index sequences
Sub_(M, rs, cs) == [i \in 1..Len(rs) |-> [j \in 1..Len(cs) |-> M[rs[i]][cs[j]]]]
Sub(M, rs, cs) == Bind3(Sub_, M, rs, cs)
Without(n, k) == TLCEval([i \in 1..(n - 1) |-> IF i < k THEN i ELSE i + 1])
\* determinant by Laplace expansion along the first row (n <= 4 here)
RECURSIVE Det_(_)
Det_(M) == LET n == Rows(M) IN
  IF n = 0 THEN One
  ELSE IF n = 1 THEN M[1][1]
  ELSE SumSeq([j \in 1..n |-> LET c == RMul(M[1][j], Det_(Sub(M, Without(n, 1), Without(n, j))))
                              IN IF j % 2 = 1 THEN c ELSE RNeg(c)])
Det(M) == Bind1(Det_, M)
Inv_(M) == LET n == Rows(M)
               F(dt) == [i \in 1..n |-> [j \in 1..n |->
                          LET c == Det_(Sub(M, Without(n, j), Without(n, i))) IN RDiv(IF (i + j) % 2 = 0 THEN c ELSE RNeg(c), dt)]]
           IN Bind1(F, Det_(M))
Inv(M) == Bind1(Inv_, M)
IsSym(M) == LET F(A) == \A i, j \in 1..Rows(A) : A[i][j] = A[j][i] IN Bind1(F, M)
\* positive semidefinite: every principal minor is non-negative (exact)
IdxSets(n) == {S \in SUBSET (1..n) : S # {}}
SeqOf(S) == LET RECURSIVE Build(_, _)
                Build(k, acc) == IF k = 0 THEN acc ELSE Build(k - 1, IF k \in S THEN <<k>> \o acc ELSE acc)
            IN Build(20, <<>>)
SubSeqs(n) == {SeqOf(S) : S \in IdxSets(n)}
IsPSD(M) == LET F(A) == /\ \A i, j \in 1..Rows(A) : A[i][j] = A[j][i]
                        /\ \A s \in SubSeqs(Rows(A)) : RSgn(Det_(Sub(A, s, s))) >= 0
            IN Bind1(F, M)
=============================================================================
