--------------------------- MODULE SensorNoise ---------------------------
(***************************************************************************)
(* What the estimator assumes about the simulator's random terms           *)
(* (inertial_sensor.py:331-342 vs filters.py:106-115): white output noise  *)
(* of intensity v has variance v^2 / dt per rate sample and v^2 * dt per   *)
(* increment sample; a bias walk of intensity q has variance q^2 * t.      *)
(* The harness measures, on seeded simulator output, the scaling exponent  *)
(* (a discrete observable: equal seeds give equal draws, so the ratio of   *)
(* variances at two sampling intervals is an exact power) and the          *)
(* magnitude in percent of the assumed variance; this module is the table  *)
(* the measurements are validated against.                                 *)
(***************************************************************************)
EXTENDS Integers, Sequences, TLC, Json, IOUtils

Obs == ndJsonDeserialize(IOEnv.TRACE_FILE)

\* *_irregular: the same law must hold sample by sample on irregular stamps (each sample scales with ITS OWN interval):
\* measured between the two interval classes of an alternating 0.5 s / 1.5 s sampling
Exponent == [rate |-> -1, increment |-> 1, walk |-> 1, rate_irregular |-> -1, increment_irregular |-> 1]
\* percent of the assumed variance; margins are >= 5 sigma of the estimators used (DESIGN.md s6 C14)
Lo == [rate |-> 90, increment |-> 90, walk |-> 75, walk_growth |-> 70, rate_irregular |-> 90, increment_irregular |-> 90]
Hi == [rate |-> 110, increment |-> 110, walk |-> 125, walk_growth |-> 130, rate_irregular |-> 110, increment_irregular |-> 110]

\* laws that hold exactly (the harness reports a boolean): the random terms depend on the sampling INTERVALS only, so
\*   walk_starts_at_first_sample  the bias at the first sample is the initial bias whatever the absolute time of that sample
\*                                (variance q^2 (t - t_first), not q^2 t)
\*   shift_invariant_*            equal seeds and a shifted time axis (by a power of two: intervals bit-identical) give bit-identical output
MustHold == {"walk_starts_at_first_sample", "shift_invariant_rate", "shift_invariant_increment", "finite_for_negative_time"}

VARIABLE k
Init == k = 1
Next == /\ k <= Len(Obs)
        /\ PrintT(<<"NOISE", k, Obs[k].kind,
                    IF Obs[k].kind \in MustHold THEN Obs[k].holds
                    ELSE (Obs[k].kind \in DOMAIN Exponent) => (Obs[k].exponent = Exponent[Obs[k].kind]),
                    IF Obs[k].kind \in MustHold THEN TRUE
                    ELSE Obs[k].percent >= Lo[Obs[k].kind] /\ Obs[k].percent <= Hi[Obs[k].kind]>>)
        /\ k' = k + 1
Spec == Init /\ [][Next]_k
=============================================================================
