--------------------------- MODULE IntegratorCapApa ---------------------------
(* Apalache wrapper of IntegratorCap: the capacity discipline as an inductive invariant, for ALL table sizes and initial
   capacities (constants are left symbolic, constrained only by ConstInit). *)
EXTENDS Integers

CONSTANTS
  \* @type: Int;
  NInc,
  \* @type: Int;
  Cap0

VARIABLES
  \* @type: Int;
  cn,
  \* @type: Int;
  ccap,
  \* @type: Int;
  cfed,
  \* @type: Bool;
  coob

INSTANCE IntegratorCap

ConstInit == NInc \in Nat /\ Cap0 \in Nat /\ Cap0 >= 1

\* inductive invariant: constrains every variable
IndInv == /\ cn \in Nat /\ ccap \in Nat /\ cfed \in Nat
          /\ cn >= 1 /\ ccap >= Cap0 /\ cfed <= NInc
          /\ cn = cfed + 1 /\ cn <= ccap /\ coob = FALSE
IndInit == IndInv
=============================================================================
