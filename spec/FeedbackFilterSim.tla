--------------------------- MODULE FeedbackFilterSim ---------------------------
(***************************************************************************)
(* Behaviour generator for leg R (`tlc -simulate`): the configuration      *)
(* space of FeedbackFilter with three sensors is too large to enumerate    *)
(* as initial states in simulation mode, so a Setup action draws one       *)
(* configuration at random (RandomElement is re-evaluated per behaviour)   *)
(* and the loop actions of FeedbackLoop run from it unchanged.             *)
(***************************************************************************)
EXTENDS FeedbackFilter

VARIABLE phase
svars == <<vars, phase>>

Dummy == [start |-> 0, imu |-> <<1>>, meas |-> [s \in 1..NSensors |-> {}], hz |-> <<1, 2>>]

SimInit == cfg = Dummy /\ InitLoop /\ phase = "setup"

Setup ==
  /\ phase = "setup"
  /\ \E S \in {RandomElement((SUBSET ImuTicks) \ {{}})} :
     \E St \in {RandomElement({X \in SUBSET Stamps : Cardinality(X) <= MaxMeas})} :
     \E f \in {RandomElement([St -> (SUBSET (1..NSensors)) \ {{}}])} :
     \E step \in {RandomElement(Steps)} :
        cfg' = [start |-> 0,
                imu   |-> Sorted(S),
                meas  |-> [s \in 1..NSensors |-> {t \in St : s \in f[t]}],
                hz    |-> [k \in 1..(Cardinality(S) + 1) |-> (<<0>> \o Sorted(S))[k] + step]]
  /\ phase' = "run"
  /\ UNCHANGED <<T, ii, mi, didMeas, done, traj, innov, sdT, calls, est, incEst, covT, bad>>

SimProcessMeas == phase = "run" /\ ProcessMeas /\ UNCHANGED phase
SimAdvance == phase = "run" /\ Advance /\ UNCHANGED phase
SimFinish == phase = "run" /\ Finish /\ UNCHANGED phase
SimNext == Setup \/ SimProcessMeas \/ SimAdvance \/ SimFinish
=============================================================================
