--------------------------- MODULE Coning ---------------------------
(***************************************************************************)
(* Coning / sculling increments (strapdown.compute_increments_from_imu,    *)
(* strapdown.py:37-95) for body signals that are LINEAR in time, as exact  *)
(* polynomial algebra in the interval length T (C15, the exact part).      *)
(*                                                                         *)
(* Signals over one sampling interval [0, T]:  w(t) = a + b t  (angular    *)
(* rate), f(t) = c + d t (specific force), a b c d integer vectors.        *)
(* A polynomial is the sequence of its rational vector coefficients        *)
(* (index k+1 = coefficient of T^k), truncated after T^4.                  *)
(*                                                                         *)
(* DERIVED (from the kinematics, nothing of the code):                     *)
(*   alpha(t) = integral of w                                              *)
(*   rotation vector  phi = alpha + 1/2 int(alpha x w) + O(T^4)   (Bortz)  *)
(*   velocity increment in the start-of-interval frame                     *)
(*       v = int (I + [alpha x] + 1/2 [alpha x]^2 + ...) f                 *)
(*         = int f + int(alpha x f) + 1/2 int(alpha x (alpha x f)) + ...   *)
(* CODE-SHAPED: the two formula sets of the function, for a rate sensor    *)
(* (samples w(0), w(T), f(0), f(T)) and for an increment sensor (samples   *)
(* are the integrals over [-T, 0] and [0, T]).                             *)
(*                                                                         *)
(* Invariants: RotThroughCubic (theta is exact through T^3),               *)
(* VelThroughCubic (dv equals int f + int(alpha x f) through T^3, i.e. the *)
(* only cubic discrepancy is the neglected second-order rotation term),    *)
(* NeglectedIsCubic, and for the rate formulas RateSculExact (equality in  *)
(* every coefficient, T^4 included).  Bound to the code by evaluating the  *)
(* printed polynomials at dyadic T and comparing with the function's       *)
(* output on tables sampled from the same signals.                         *)
(***************************************************************************)
EXTENDS Exact, FiniteSets, TLC, MeasDomain     \* MeasDomain: Vels (reused as the set of integer coefficient vectors)

CONSTANTS CrossOrderSwapped      \* FALSE = the code; TRUE = previous x current written as current x previous (sensitivity run)

VARIABLES typ, a, b, c, d, emitted
vars == <<typ, a, b, c, d, emitted>>

Deg == 4
ZeroV == <<Zero, Zero, Zero>>
ZeroP == [k \in 1..(Deg + 1) |-> ZeroV]
VScale_(s, v) == [i \in 1..3 |-> RMul_(s, v[i])]
VCross_(u, v) == <<RSub_(RMul_(u[2], v[3]), RMul_(u[3], v[2])), RSub_(RMul_(u[3], v[1]), RMul_(u[1], v[3])),
                   RSub_(RMul_(u[1], v[2]), RMul_(u[2], v[1]))>>
RECURSIVE VSum_(_, _)
VSum_(s, k) == IF k = 0 THEN ZeroV ELSE VAdd_(s[k], VSum_(s, k - 1))
\* polynomial operations (all eager: the discipline of Exact.tla)
PAdd_(p, q) == [k \in 1..(Deg + 1) |-> VAdd_(p[k], q[k])]
PSub_(p, q) == [k \in 1..(Deg + 1) |-> VSub_(p[k], q[k])]
PScale_(s, p) == [k \in 1..(Deg + 1) |-> VScale_(s, p[k])]
PInt_(p) == [k \in 1..(Deg + 1) |-> IF k = 1 THEN ZeroV ELSE VScale_(<<1, k - 1>>, p[k - 1])]        \* int_0^T, as a polynomial in T
PCross_(p, q) == [m \in 1..(Deg + 1) |-> VSum_([i \in 1..m |-> VCross_(p[i], q[m - i + 1])], m)]      \* truncated product
PShift_(p) == [k \in 1..(Deg + 1) |-> IF k = 1 THEN ZeroV ELSE p[k - 1]]                             \* times T
PAdd(p, q) == Bind2(PAdd_, p, q)
PSub(p, q) == Bind2(PSub_, p, q)
PScale(s, p) == Bind2(PScale_, s, p)
PInt(p) == Bind1(PInt_, p)
PCross(p, q) == Bind2(PCross_, p, q)
PShift(p) == Bind1(PShift_, p)
Half == <<1, 2>>
Twelfth == <<1, 12>>
Const(v) == [k \in 1..(Deg + 1) |-> IF k = 1 THEN VOfInt(v) ELSE ZeroV]
Lin(v0, v1) == [k \in 1..(Deg + 1) |-> IF k = 1 THEN VOfInt(v0) ELSE IF k = 2 THEN VOfInt(v1) ELSE ZeroV]     \* v0 + v1 t

(* derived *)
W == Lin(a, b)
F == Lin(c, d)
Alpha == PInt(W)
RotDerived == PAdd(Alpha, PScale(Half, PInt(PCross(Alpha, W))))
VelFirst == PAdd(PInt(F), PInt(PCross(Alpha, F)))                         \* int f + int(alpha x f)
Neglected == PScale(Half, PInt(PCross(Alpha, PCross(Alpha, F))))          \* 1/2 int(alpha x (alpha x f))

(* code-shaped, as polynomials in T *)
X(p, q) == IF CrossOrderSwapped THEN PCross(q, p) ELSE PCross(p, q)
\* rate sensor: a_gyro = w(0) = a, b_gyro = w(T) - w(0) = b T, likewise for the accelerometers
BGyro == PShift(Const(b))
BAccel == PShift(Const(d))
RateGyroInc == PShift(PAdd(Const(a), PScale(Half, BGyro)))                \* (a_gyro + 0.5 b_gyro) dt
RateAccelInc == PShift(PAdd(Const(c), PScale(Half, BAccel)))
RateConing == PScale(Twelfth, PShift(PShift(X(Const(a), BGyro))))         \* cross(a_gyro, b_gyro) dt^2 / 12
RateSculling == PScale(Twelfth, PShift(PShift(PAdd(X(Const(a), BAccel), X(Const(c), BGyro)))))
\* increment sensor: the previous sample is the integral over [-T, 0], the current one over [0, T]
Minus(v) == [i \in 1..3 |-> 0 - v[i]]
PrevGyro == PAdd(PShift(Const(a)), PScale(Half, PShift(PShift(Const(Minus(b))))))       \* a T - b T^2 / 2
CurGyro == PAdd(PShift(Const(a)), PScale(Half, PShift(PShift(Const(b)))))
PrevAccel == PAdd(PShift(Const(c)), PScale(Half, PShift(PShift(Const(Minus(d))))))
CurAccel == PAdd(PShift(Const(c)), PScale(Half, PShift(PShift(Const(d)))))
IncConing == PScale(Twelfth, X(PrevGyro, CurGyro))
IncSculling == PScale(Twelfth, PAdd(X(PrevGyro, CurAccel), X(PrevAccel, CurGyro)))

GyroInc == IF typ = "rate" THEN RateGyroInc ELSE CurGyro
AccelInc == IF typ = "rate" THEN RateAccelInc ELSE CurAccel
ThetaCode == PAdd(GyroInc, IF typ = "rate" THEN RateConing ELSE IncConing)
DvCode == PAdd(PAdd(AccelInc, IF typ = "rate" THEN RateSculling ELSE IncSculling), PScale(Half, PCross(GyroInc, AccelInc)))

Init == typ \in {"rate", "increment"} /\ a \in Vels /\ b \in Vels /\ c \in Vels /\ d \in Vels /\ emitted = FALSE
Emit == /\ ~emitted /\ emitted' = TRUE
        /\ PrintT(<<"CONING", typ, a, b, c, d, ThetaCode, DvCode>>)
        /\ UNCHANGED <<typ, a, b, c, d>>
Next == Emit
Spec == Init /\ [][Next]_vars

Upto3(p, q) == \A k \in 1..4 : p[k] = q[k]
RotThroughCubic == Upto3(ThetaCode, RotDerived)
VelThroughCubic == Upto3(DvCode, VelFirst)
NeglectedIsCubic == Neglected[1] = ZeroV /\ Neglected[2] = ZeroV /\ Neglected[3] = ZeroV
RateSculExact == typ = "rate" => DvCode = VelFirst
\* no constant term: a zero interval gives zero increments
NoConstantTerm == ThetaCode[1] = ZeroV /\ DvCode[1] = ZeroV
=============================================================================
