--------------------------- MODULE FirstOrder ---------------------------
(***************************************************************************)
(* Integer linear algebra and first-order ("dual number") quantities used  *)
(* by MeasModel and ErrorTransform: rotations of the cube group, skew      *)
(* matrices, the error-state layout DR 1..3 / DV 4..6 / PHI 7..9 and the   *)
(* coefficient matrix of  phi x a.  Constant-level operators only.         *)
(***************************************************************************)
EXTENDS Integers, Sequences, FiniteSets, TLC

(* small integer linear algebra: vectors are sequences, matrices sequences of rows *)
CQ(k) == CASE k % 4 = 0 -> 1 [] k % 4 = 1 -> 0 [] k % 4 = 2 -> -1 [] OTHER -> 0
SQ(k) == CASE k % 4 = 0 -> 0 [] k % 4 = 1 -> 1 [] k % 4 = 2 -> 0 [] OTHER -> -1
RECURSIVE SumTo(_, _)
SumTo(f, n) == IF n = 0 THEN 0 ELSE f[n] + SumTo(f, n - 1)
Dot(a, b) == SumTo([k \in 1..Len(a) |-> a[k] * b[k]], Len(a))
Col(M, j) == [i \in 1..Len(M) |-> M[i][j]]
\* TLC re-evaluates an operator argument at every reference and builds functions lazily: bind the arguments to values by
\* quantifying over singleton sets and return eagerly evaluated results (the discipline of Exact.tla, DESIGN.md s10)
Bind1(F(_), a0) == CHOOSE r \in {TLCEval(F(a)) : a \in {a0}} : TRUE
Bind2(F(_, _), a0, b0) == CHOOSE r \in {TLCEval(F(a, b)) : a \in {a0}, b \in {b0}} : TRUE
MMulR(A, B) == [i \in 1..Len(A) |-> [j \in 1..Len(B[1]) |-> Dot(A[i], Col(B, j))]]
MVecR(A, v) == [i \in 1..Len(A) |-> Dot(A[i], v)]
MAddR(A, B) == [i \in 1..Len(A) |-> [j \in 1..Len(A[1]) |-> A[i][j] + B[i][j]]]
MSubR(A, B) == [i \in 1..Len(A) |-> [j \in 1..Len(A[1]) |-> A[i][j] - B[i][j]]]
MNegR(A) == [i \in 1..Len(A) |-> [j \in 1..Len(A[1]) |-> 0 - A[i][j]]]
TrR(A) == [j \in 1..Len(A[1]) |-> [i \in 1..Len(A) |-> A[i][j]]]
MMul(A, B) == Bind2(MMulR, A, B)
MVec(A, v) == Bind2(MVecR, A, v)
MAdd(A, B) == Bind2(MAddR, A, B)
MSub(A, B) == Bind2(MSubR, A, B)
MNeg(A) == Bind1(MNegR, A)
Tr(A) == Bind1(TrR, A)
VAdd(a, b) == [k \in 1..Len(a) |-> a[k] + b[k]]
Cross(a, b) == <<a[2] * b[3] - a[3] * b[2], a[3] * b[1] - a[1] * b[3], a[1] * b[2] - a[2] * b[1]>>
Skew(a) == <<<<0, 0 - a[3], a[2]>>, <<a[3], 0, 0 - a[1]>>, <<0 - a[2], a[1], 0>>>>
Zero3 == <<0, 0, 0>>
Rx(k) == <<<<1, 0, 0>>, <<0, CQ(k), 0 - SQ(k)>>, <<0, SQ(k), CQ(k)>>>>
Rz(k) == <<<<CQ(k), 0 - SQ(k), 0>>, <<SQ(k), CQ(k), 0>>, <<0, 0, 1>>>>
\* transform.mat_from_rph: Rotation.from_euler('xyz', [roll, pitch, heading]) = Rz(heading) Ry(pitch) Rx(roll); pitch = 0 here
MatNBq(h, r) == MMul(Rz(h), Rx(r))

\* error-state layout with altitude: DR 1..3, DV 4..6, PHI 7..9 (error_model.py:102-113)
Sel(off) == [i \in 1..3 |-> [j \in 1..9 |-> IF j = off + i THEN 1 ELSE 0]]
\* coefficient matrix of  phi x a  for a constant vector a:  phi x a = -skew(a) phi
PhiCross(a) == MMul(MNeg(Skew(a)), Sel(6))


\* the library's correction convention in 2D (error_model.py:115-132, 292-298): DR3 = 0, and DV3 is such that the third component
\* of v_true = (I + phi x)(v - DV) has no first-order part - derived, and as the code writes it
T32DerivedOf(v) ==
  [i \in 1..9 |-> [j \in 1..7 |->
     CASE i \in {1, 2} -> IF j = i THEN 1 ELSE 0
       [] i = 3 -> 0
       [] i \in {4, 5} -> IF j = i - 1 THEN 1 ELSE 0
       [] i = 6 -> IF j >= 5 THEN PhiCross(v)[3][j + 2] ELSE 0
       [] OTHER -> IF j = i - 2 THEN 1 ELSE 0]]
T32CodeOf(v) ==
  [i \in 1..9 |-> [j \in 1..7 |->
     IF i = 6 THEN (IF j = 5 THEN v[2] ELSE IF j = 6 THEN 0 - v[1] ELSE 0)
     ELSE IF <<i, j>> \in {<<1, 1>>, <<2, 2>>, <<4, 3>>, <<5, 4>>, <<7, 5>>, <<8, 6>>, <<9, 7>>} THEN 1 ELSE 0]]
I3 == <<<<1, 0, 0>>, <<0, 1, 0>>, <<0, 0, 1>>>>
Z3 == <<Zero3, Zero3, Zero3>>
Block3(A, B, C) == [i \in 1..3 |-> A[i] \o B[i] \o C[i]]
=============================================================================
