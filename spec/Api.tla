--------------------------- MODULE Api ---------------------------
(***************************************************************************)
(* The public API of pyins as a typed term algebra (C19).                  *)
(*                                                                         *)
(* ApiTable.tla lists every public callable: parameter kinds and the       *)
(* argument FORMS each parameter accepts (s scalar, l list, a ndarray,     *)
(* k stacked, S Series, D DataFrame, n None), result kinds, whether it     *)
(* draws random numbers (takes a seed), and the set `mut` of parameter     *)
(* positions it is allowed to modify - empty everywhere except the         *)
(* receivers of the documented stateful methods and the sensor models      *)
(* handed to a filter.                                                     *)
(*                                                                         *)
(* State: a pool of objects obj -> [kind, term].  The term of an object is *)
(* its CONTENT as a symbolic expression: base objects are <<"base", id>>,  *)
(* a result is <<"res", f, argument terms, seed, j>> - deliberately        *)
(* without the forms: the same input in another form must give the same    *)
(* values - and a permitted mutation makes <<"mut", f, old, args>>.        *)
(* Call(f, args, forms, seed) picks arguments of the right kinds from the  *)
(* pool, INCLUDING results of earlier calls and the same object in two     *)
(* slots, leaves every object outside mut(f) untouched (frame condition)   *)
(* and adds the results.  TLC generates programs: every callable x every   *)
(* form combination (exhaustive, depth 1), the same call twice and a call  *)
(* between two equal calls sharing an argument (Pattern), random data-flow *)
(* chains (-simulate).  ApiTrace.tla validates real executions: the map    *)
(* term -> bit pattern must be a function at every step.                   *)
(***************************************************************************)
EXTENDS Integers, Sequences, FiniteSets, TLC, ApiTable

CONSTANTS MaxCalls, Mode          \* Mode: "depth1" | "pattern" | "sim"

VARIABLES pool, prog
vars == <<pool, prog>>

NF == Len(Table)
Seeds == {1, 2}

\* base objects: two content-distinct objects of every data kind
BaseObjects == [o \in {<<k, v>> : k \in DataKinds, v \in {"A", "B"}} |-> [kind |-> o[1], term |-> <<"base", o[1], o[2]>>]]

Init == pool = BaseObjects /\ prog = <<>>

OfKind(k) == {o \in DOMAIN pool : pool[o].kind = k}
\* all ways to choose arguments (objects) for callable f
RECURSIVE ArgChoices(_, _)
ArgChoices(f, i) ==
  IF i = 0 THEN {<<>>}
  ELSE {Append(a, o) : a \in ArgChoices(f, i - 1), o \in OfKind(Table[f].params[i].kind)}
RECURSIVE FormChoices(_, _)
FormChoices(f, i) ==
  IF i = 0 THEN {<<>>}
  ELSE {Append(a, m) : a \in FormChoices(f, i - 1), m \in Table[f].params[i].forms}
\* stacked forms are used jointly: either no parameter is a stack or every stackable parameter is (row i of each stack
\* belongs to input i; a single input against a stack of another parameter is not a documented calling convention)
Jointly(f, fm) == LET st == {i \in 1..Len(fm) : fm[i] \in Table[f].params[i].stack}
                  IN st = {} \/ st = {i \in 1..Len(fm) : Table[f].params[i].stack # {}}
Canonical(f) == [i \in 1..Len(Table[f].params) |-> Table[f].params[i].canon]

Terms(args) == [i \in 1..Len(args) |-> pool[args[i]].term]

Call(f, args, forms, seed) ==
  /\ Len(prog) < MaxCalls
  /\ LET n     == Len(prog) + 1
         at    == Terms(args)
         sd    == IF Table[f].random THEN seed ELSE 0
         muts  == {args[i] : i \in Table[f].mut}
         newob == [o \in {<<"r", n, j>> : j \in 1..Len(Table[f].res)} |->
                     [kind |-> Table[f].res[o[3]], term |-> <<"res", f, at, sd, o[3]>>]]
     IN /\ pool' = [o \in DOMAIN pool \cup DOMAIN newob |->
                      IF o \in DOMAIN newob THEN newob[o]
                      ELSE IF o \in muts THEN [kind |-> pool[o].kind, term |-> <<"mut", f, pool[o].term, at, sd>>]
                      ELSE pool[o]]                                     \* frame condition: everything else untouched
        /\ prog' = Append(prog, [f |-> f, args |-> args, forms |-> forms, seed |-> sd])

\* ---- program shapes
\* depth 1: every callable x every form combination, canonical first arguments
FirstArgs(f) == CHOOSE a \in ArgChoices(f, Len(Table[f].params)) : \A i \in 1..Len(a) : a[i][1] # "r" /\ a[i][2] = "A"
Depth1 == /\ prog = <<>>
          /\ \E f \in 1..NF : \E fm \in FormChoices(f, Len(Table[f].params)) : Jointly(f, fm) /\ Call(f, FirstArgs(f), fm, 1)
\* patterns: f ; f again (equal inputs) ; and f ; g sharing an argument ; f
Pattern ==
  \/ /\ prog = <<>>
     /\ \E f \in 1..NF : Call(f, FirstArgs(f), Canonical(f), 1)
  \/ /\ Len(prog) = 1
     /\ \/ Call(prog[1].f, prog[1].args, Canonical(prog[1].f), 1)
        \/ \E g \in 1..NF : g # prog[1].f /\
             \E a \in ArgChoices(g, Len(Table[g].params)) :
                /\ \A i \in 1..Len(a) : a[i][1] # "r"
                /\ \E i \in 1..Len(a), j \in 1..Len(prog[1].args) : a[i] = prog[1].args[j]
                /\ Call(g, a, Canonical(g), 2)
  \/ /\ Len(prog) = 2 /\ prog[2].f # prog[1].f
     /\ Call(prog[1].f, prog[1].args, Canonical(prog[1].f), 1)
\* random data-flow chains
Sim == \E f \in {RandomElement(1..NF)} :
         /\ ArgChoices(f, Len(Table[f].params)) # {}
         /\ \E a \in {RandomElement(ArgChoices(f, Len(Table[f].params)))} :
            \E fm \in {RandomElement({x \in FormChoices(f, Len(Table[f].params)) : Jointly(f, x)})} :
            \E s \in {RandomElement(Seeds)} : Call(f, a, fm, s)

Next == CASE Mode = "depth1" -> Depth1 [] Mode = "pattern" -> Pattern [] OTHER -> Sim
Spec == Init /\ [][Next]_vars

(***************************************************************************)
(* Invariants                                                              *)
(***************************************************************************)
\* purity: an object that no call was allowed to modify still has its original content
Frame == \A o \in DOMAIN BaseObjects :
            (\A k \in 1..Len(prog) : \A i \in Table[prog[k].f].mut : prog[k].args[i] # o) => pool[o] = BaseObjects[o]
\* determinism is functional dependence of a result's content on <<f, argument contents, seed>>: true of the terms by
\* construction; on real executions it is the clause MemoFunctional of ApiTrace.tla.
\* forms never enter a content term
FormFree == \A o \in DOMAIN pool : pool[o].term[1] = "res" => Len(pool[o].term) = 5
\* results have the kinds the table promises (schema check happens on the real objects, per kind)
Typed == \A o \in DOMAIN pool : o[1] = "r" => pool[o].kind = Table[prog[o[2]].f].res[o[3]]

Emit == Len(prog) >= 1 => PrintT(<<"PROG", prog>>)
=============================================================================
