--------------------------- MODULE Integrator ---------------------------
(***************************************************************************)
(* pyins.strapdown.Integrator (strapdown.py:98-216) and the kernel's       *)
(* buffer discipline (_numba_integrate.py:38-119).                         *)
(*                                                                         *)
(* Navigation states are symbolic terms (abstraction A3):                  *)
(*     [base |-> b, incs |-> <<i1, ..., ik>>]                              *)
(* "the state obtained from the b-th supplied state by applying the        *)
(* increments i1..ik"; -i stands for a scaled copy of increment i (only    *)
(* predict sees those).  The increments table is 1..N, increment i is      *)
(* stamped with time i, the initial state with time 0.                     *)
(*                                                                         *)
(* refinement: buf (the three numpy buffers as one array of terms),        *)
(*             cap (their length), the doubling rule, the scratch row      *)
(*             written by predict;                                         *)
(* contract:   rows (the public trajectory), ret (last return value),      *)
(*             fed, and the invariants below (C02, C13).                   *)
(*                                                                         *)
(* 2D abstraction (with_altitude = False): a row carries vd0 (the stored   *)
(* vertical velocity is exactly zero), altOf (which supplied state its     *)
(* altitude is bit-identical to) and drifted (its altitude is the result   *)
(* of a step that started from a non-zero stored VD: the kernel averages   *)
(* the stored VD with 0, _numba_integrate.py:97-111).  FixedSet = FALSE    *)
(* keeps the pinned set_pva, which stored a non-zero VD as given.          *)
(***************************************************************************)
EXTENDS Integers, Sequences, FiniteSets, SequencesExt

CONSTANTS N,          \* rows in the increments table
          Cap0,       \* Integrator.INITIAL_SIZE
          WithAlt,    \* with_altitude
          MaxSets,    \* bound on set_pva calls
          MaxDepth,   \* bound on the call history
          FixedSet    \* TRUE: set_pva zeroes VD in 2D mode like the constructor (repaired code)

VARIABLES buf, cap, rows, fed, nsets, lastSet, ret, oob, hist

vars == <<buf, cap, rows, fed, nsets, lastSet, ret, oob, hist>>

Garbage == [garbage |-> TRUE]
Max2(a, b) == IF a > b THEN a ELSE b

Row(b, incs, vdz, altOf, drifted) == [base |-> b, incs |-> incs, vd0 |-> vdz, altOf |-> altOf, drifted |-> drifted]
\* one kernel step
StepRow(r, i) ==
  IF WithAlt THEN Row(r.base, Append(r.incs, i), r.vd0, r.altOf, r.drifted)
  ELSE Row(r.base, Append(r.incs, i), TRUE, r.altOf, r.drifted \/ ~r.vd0)

n == Len(rows)
Grow(need) == IF need > cap THEN Max2(2 * cap, need) ELSE cap          \* strapdown.py:140-145
Extend(b, c) == [j \in 1..c |-> IF j <= Len(b) THEN b[j] ELSE Garbage]   \* ndarray.resize keeps the prefix

RECURSIVE Chain(_, _, _)
Chain(r, from, k) == IF k = 0 THEN <<>> ELSE <<StepRow(r, from)>> \o Chain(StepRow(r, from), from + 1, k - 1)

Init ==
  /\ \E vdz \in BOOLEAN :
       LET r0 == Row(0, <<>>, IF WithAlt THEN vdz ELSE TRUE, 0, FALSE) IN     \* the constructor zeroes VD in 2D
       /\ rows = <<r0>>
       /\ buf = Extend(<<r0>>, Cap0)
       /\ ret = <<>>
  /\ cap = Cap0 /\ fed = 0 /\ nsets = 0 /\ lastSet = 1 /\ oob = FALSE /\ hist = <<>>

\* integrate(chunk of k rows): resize, kernel writes buf[n+1..n+k] from buf[n], rows appended, chunk returned
Integrate(k) ==
  /\ k \in 0..(N - fed)
  /\ LET c2  == Grow(n + k)
         new == Chain(buf[n], fed + 1, k)
         b2  == Extend(buf, c2)
     IN /\ cap' = c2
        /\ buf' = [j \in 1..c2 |-> IF j > n /\ j <= n + k THEN new[j - n] ELSE b2[j]]
        /\ rows' = rows \o new
        /\ ret' = <<rows[n]>> \o new
        /\ oob' = (oob \/ n + k > c2)
  /\ fed' = fed + k
  /\ hist' = Append(hist, <<"I", k>>)
  /\ UNCHANGED <<nsets, lastSet>>

\* predict(row i, possibly scaled): same kernel on the scratch row buf[n+1]; the trajectory is not touched
Predict(i, scaled) ==
  /\ i \in 1..N
  /\ LET c2 == Grow(n + 1)
         b2 == Extend(buf, c2)
         p  == StepRow(buf[n], IF scaled THEN -i ELSE i)
     IN /\ cap' = c2
        /\ buf' = [b2 EXCEPT ![n + 1] = p]
        /\ ret' = <<p>>
        /\ oob' = (oob \/ n + 1 > c2)
  /\ hist' = Append(hist, <<"P", i, scaled>>)
  /\ UNCHANGED <<rows, fed, nsets, lastSet>>

\* set_pva: overwrite the latest state in the buffers and in the public row
\* `how` records where the supplied state comes from (a new state, the current one with position/velocity changed,
\* exactly get_pva()); the specification treats them alike: whatever is supplied becomes a new base
SetPva(vdz, how) ==
  /\ nsets < MaxSets
  /\ LET b == nsets + 1
         r == Row(b, <<>>, IF ~WithAlt /\ FixedSet THEN TRUE ELSE vdz, b, FALSE)
     IN /\ rows' = [rows EXCEPT ![n] = r]
        /\ buf' = [buf EXCEPT ![n] = r]
  /\ nsets' = nsets + 1 /\ lastSet' = n
  /\ ret' = <<>>
  /\ hist' = Append(hist, <<"S", vdz, how>>)
  /\ UNCHANGED <<cap, fed, oob>>

\* get_pva / get_time
Get ==
  /\ ret' = <<rows[n]>>
  /\ hist' = Append(hist, <<"G">>)
  /\ UNCHANGED <<buf, cap, rows, fed, nsets, lastSet, oob>>

Bounded == Len(hist) < MaxDepth
IntegrateAct == Bounded /\ \E k \in 0..N : Integrate(k)
PredictAct == Bounded /\ \E i \in 1..N, sc \in BOOLEAN : Predict(i, sc)
SetPvaAct == Bounded /\ \E v \in BOOLEAN, how \in {"new", "keepatt", "same"} : SetPva(v, how)
GetAct == Bounded /\ Get
Next == IntegrateAct \/ PredictAct \/ SetPvaAct \/ GetAct

Spec == Init /\ [][Next]_vars

(***************************************************************************)
(* Contract C02                                                            *)
(***************************************************************************)
\* time index = start time followed by every increment time exactly once: row j carries increment j-1
IndexOnce == n = fed + 1
\* what single-shot integration from the most recently supplied state gives
Canonical ==
  /\ rows[lastSet].base = nsets /\ rows[lastSet].incs = <<>>
  /\ \A j \in (lastSet + 1)..n :
        /\ rows[j].base = nsets
        /\ rows[j].incs = [m \in 1..(j - lastSet) |-> lastSet - 1 + m]
\* rows before the latest one are never rewritten (so Canonical held for them when they were current)
PrefixFrozen == [][\A j \in 1..(n - 1) : rows'[j] = rows[j]]_vars
InBounds == ~oob /\ Len(buf) = cap /\ n <= cap
BufMirrorsRows == \A j \in 1..n : buf[j] = rows[j]
PredictPure == [][(\E i \in 1..N, sc \in BOOLEAN : Predict(i, sc)) => UNCHANGED <<rows, fed>>]_vars
ReturnShape ==
  hist # <<>> =>
    LET h == hist[Len(hist)] IN
      /\ (h[1] = "I" => ret = SubSeq(rows, n - h[2], n))
      /\ (h[1] = "P" => ret = <<StepRow(rows[n], IF h[3] THEN -h[2] ELSE h[2])>>)
      /\ (h[1] = "G" => ret = <<rows[n]>>)
(***************************************************************************)
(* Contract C13 (integrator part)                                          *)
(***************************************************************************)
Frozen2D == ~WithAlt =>
   /\ \A j \in 1..n : rows[j].vd0 /\ ~rows[j].drifted
   /\ \A j \in 1..Len(ret) : ret[j].vd0 /\ ~ret[j].drifted
\* the altitude of every row is that of the state most recently supplied before it
AltSource == ~WithAlt => \A j \in 1..n : rows[j].altOf = rows[j].base

\* the counter abstraction used for long real histories is refined by this model
Cap == INSTANCE IntegratorCap WITH NInc <- N, cn <- Len(rows), ccap <- cap, cfed <- fed, coob <- oob
IntegratorRefinesCap == Cap!CSpec

\* history independence proper: the observable state is a function of (fed, lastSet, nsets), not of hist
View == <<buf, cap, rows, fed, nsets, lastSet, ret, oob>>
=============================================================================
