--------------------------- MODULE JointSystem ---------------------------
(***************************************************************************)
(* Block layout of the joint error system the filters propagate            *)
(* (filters.py:44-140): INS error states, then the gyro model's states,    *)
(* then the accelerometer model's states; noise vector = gyro output       *)
(* noises, accel output noises, gyro bias-walk noises, accel bias-walk      *)
(* noises.  For a configuration (with_altitude, gyro mask, accel mask) the *)
(* module says which entries of the continuous dynamics matrix F and of    *)
(* the noise density Q = G diag(q^2) G' MAY be non-zero and what stands on *)
(* the diagonal of the sensor blocks of Q.  (Extended coverage behind C14  *)
(* and the block placement that C11 relies on; no listed property is       *)
(* claimed with it.)  Bound to the code by capturing the arguments of      *)
(* kalman.compute_process_matrices during real filter runs.                *)
(*                                                                         *)
(* INS states: with altitude DR1 DR2 DR3 DV1 DV2 DV3 PHI1 PHI2 PHI3,       *)
(* without   DR1 DR2 DV1 DV2 PHI1 PHI2 PHI3 (error_model.py:81-88).        *)
(* Gyro errors couple into the DV and PHI rows, accelerometer errors into  *)
(* the DV rows only (error_model.py:187-193).                              *)
(***************************************************************************)
EXTENDS Integers, Sequences, FiniteSets, TLC

CONSTANTS Masks            \* the sensor masks to combine (a set of 18-bit integers, all valid)

VARIABLES alt, gm, am, emitted
vars == <<alt, gm, am, emitted>>

SM == INSTANCE SensorModel WITH mask <- 0, SliceBits <- 0, Slice <- 0, Mode <- "slice"

NI == IF alt THEN 9 ELSE 7
DRrows == IF alt THEN 1..3 ELSE 1..2
DVrows == IF alt THEN 4..6 ELSE 3..4
PHIrows == IF alt THEN 7..9 ELSE 5..7
NG == SM!NStates(gm)
NA == SM!NStates(am)
NStates == NI + NG + NA
GyroCols == (NI + 1)..(NI + NG)
AccelCols == (NI + NG + 1)..NStates
InsRows == 1..NI

\* noise vector layout
NOG == SM!NOut(gm)
NOA == SM!NOut(am)
NWG == SM!NNoises(gm)
NWA == SM!NNoises(am)
NNoise == NOG + NOA + NWG + NWA

\* entries of F that may be non-zero
FMay == (InsRows \X InsRows)
        \cup ((DVrows \cup PHIrows) \X GyroCols)
        \cup (DVrows \X AccelCols)
\* entries of Q that may be non-zero
InsNoisy == (IF NOG > 0 THEN DVrows \cup PHIrows ELSE {}) \cup (IF NOA > 0 THEN DVrows ELSE {})
\* for every walk noise n of a model: the joint index of the bias state it drives and the axis whose intensity it carries
WalkDiag(m, off) == {<<off + SM!GOnes(m)[n][1], SM!WalkAxes(m)[n]>> : n \in 1..SM!NNoises(m)}
QDiag == WalkDiag(gm, NI) \cup {<<p[1], 10 + p[2]>> : p \in WalkDiag(am, NI + NG)}      \* accel axes tagged 11..13
QMay == (InsNoisy \X InsNoisy) \cup {<<p[1], p[1]>> : p \in QDiag}

(***************************************************************************)
(* Block TERMS (third round): what stands in every block of the joint      *)
(* matrices, as a formula over the public pieces - error_model.            *)
(* system_matrices(pva) = (Fii, Fig, Fia), the sensor models' F, G, H(r),  *)
(* J, P, q, v, the measurement model's H, transform_to_internal(pva) = T.  *)
(* The harness interprets the terms with the real objects and compares the *)
(* result with the matrices captured at kalman.compute_process_matrices /  *)
(* kalman.correct during real filter runs (filters.py:44-115, 305-306).    *)
(***************************************************************************)
StateBlocks == <<"ins", "gyro", "accel">>
NoiseBlocks == <<"gyro_out", "accel_out", "gyro_walk", "accel_walk">>
BlockSize(b) == CASE b = "ins" -> NI [] b = "gyro" -> NG [] b = "accel" -> NA
                  [] b = "gyro_out" -> NOG [] b = "accel_out" -> NOA [] b = "gyro_walk" -> NWG [] b = "accel_walk" -> NWA
RECURSIVE OffsetIn(_, _)
OffsetIn(seq, k) == IF k = 1 THEN 0 ELSE OffsetIn(seq, k - 1) + BlockSize(seq[k - 1])
FTerm(rb, cb) == CASE rb = "ins" /\ cb = "ins" -> "Fii"
                   [] rb = "ins" /\ cb = "gyro" -> "Fig*Hg"          \* gyro errors H_g(rate) x_g enter through the gyro coupling matrix
                   [] rb = "ins" /\ cb = "accel" -> "Fia*Ha"
                   [] rb = "gyro" /\ cb = "gyro" -> "gyro.F"
                   [] rb = "accel" /\ cb = "accel" -> "accel.F"
                   [] OTHER -> "0"
GTerm(rb, nb) == CASE rb = "ins" /\ nb = "gyro_out" -> "Fig*gyro.J"   \* output noise of the gyros enters like a gyro error
                   [] rb = "ins" /\ nb = "accel_out" -> "Fia*accel.J"
                   [] rb = "gyro" /\ nb = "gyro_walk" -> "gyro.G"
                   [] rb = "accel" /\ nb = "accel_walk" -> "accel.G"
                   [] OTHER -> "0"
QTerm(nb) == CASE nb = "gyro_out" -> "gyro.v" [] nb = "accel_out" -> "accel.v"
               [] nb = "gyro_walk" -> "gyro.q" [] nb = "accel_walk" -> "accel.q"       \* intensity vector of each noise block
P0Term(rb, cb) == CASE rb = "ins" /\ cb = "ins" -> "T*Ppva*T'" [] rb = "gyro" /\ cb = "gyro" -> "gyro.P"
                    [] rb = "accel" /\ cb = "accel" -> "accel.P" [] OTHER -> "0"
HTerm(cb) == IF cb = "ins" THEN "H" ELSE "0"                           \* aiding measurements observe the INS error states only
TermTable == <<"TERMS",
               [i \in 1..3 |-> [j \in 1..3 |-> FTerm(StateBlocks[i], StateBlocks[j])]],
               [i \in 1..3 |-> [j \in 1..4 |-> GTerm(StateBlocks[i], NoiseBlocks[j])]],
               [j \in 1..4 |-> QTerm(NoiseBlocks[j])],
               [i \in 1..3 |-> [j \in 1..3 |-> P0Term(StateBlocks[i], StateBlocks[j])]],
               [j \in 1..3 |-> HTerm(StateBlocks[j])]>>
\* the terms agree with the may-be-non-zero patterns above: a block is "0" exactly when the pattern leaves it empty
BlockRows(i) == (OffsetIn(StateBlocks, i) + 1)..(OffsetIn(StateBlocks, i) + BlockSize(StateBlocks[i]))
TermsMatchSupport ==
  \A i, j \in 1..3 :
     (BlockSize(StateBlocks[i]) > 0 /\ BlockSize(StateBlocks[j]) > 0) =>
        LET hit == \E p \in FMay : p[1] \in BlockRows(i) /\ p[2] \in BlockRows(j)
            sensorDiag == i = j /\ i > 1        \* gyro.F / accel.F are zero matrices today (random constants), but they are the models' to define
        IN (FTerm(StateBlocks[i], StateBlocks[j]) = "0") <=> (~hit /\ ~sensorDiag)
\* each noise block has its own intensity vector of the block's size, in the same order as the columns of G
NoiseOrder == /\ OffsetIn(NoiseBlocks, 4) + BlockSize(NoiseBlocks[4]) = NNoise
              /\ \A j \in 1..4 : \E i \in 1..3 : GTerm(StateBlocks[i], NoiseBlocks[j]) # "0"
              /\ \A j \in 1..4 : Cardinality({i \in 1..3 : GTerm(StateBlocks[i], NoiseBlocks[j]) # "0"}) = 1
\* sensor states are driven by their own walk noise only; output noises drive the INS states only
NoiseRouting == /\ \A j \in {1, 2} : GTerm("ins", NoiseBlocks[j]) # "0"
                /\ \A j \in {3, 4} : GTerm("ins", NoiseBlocks[j]) = "0"

Init == alt \in BOOLEAN /\ gm \in Masks /\ am \in Masks /\ emitted = FALSE
Emit == ~emitted /\ PrintT(<<"JOINT", alt, gm, am, NStates, NNoise, FMay, QMay, QDiag,
                            [k \in 1..NG |-> SM!States(gm)[k]], [k \in 1..NA |-> SM!States(am)[k]]>>)
        /\ PrintT(TermTable)
        /\ emitted' = TRUE /\ UNCHANGED <<alt, gm, am>>
Next == Emit
Spec == Init /\ [][Next]_vars

\* sensor parameters are random constants: no dynamics of their own, nothing feeds back into them
SensorRowsZero == \A p \in FMay : p[1] \in InsRows
\* position errors are driven through velocity only: no sensor error and no noise enters the DR rows directly
NoDirectPositionDrive == /\ \A p \in FMay : p[1] \in DRrows => p[2] \in InsRows
                         /\ \A p \in QMay : p[1] \notin DRrows /\ p[2] \notin DRrows
\* the noise density is symmetric in its support, sensor blocks of Q are diagonal, INS and sensor noises are uncorrelated
QStructure == /\ \A p \in QMay : <<p[2], p[1]>> \in QMay
              /\ \A p \in QMay : (p[1] > NI \/ p[2] > NI) => p[1] = p[2]
\* every bias-walk noise drives exactly one state, a bias state of its own model, and distinct noises distinct states
WalkOwnBias == /\ Cardinality(QDiag) = NWG + NWA
               /\ Cardinality({p[1] : p \in QDiag}) = NWG + NWA
               /\ \A p \in QDiag : IF p[2] < 10 THEN p[1] \in GyroCols /\ SM!States(gm)[p[1] - NI] = p[2]
                                   ELSE p[1] \in AccelCols /\ SM!States(am)[p[1] - NI - NG] = p[2] - 10
DimsAgree == NStates = NI + NG + NA /\ NNoise = NOG + NOA + NWG + NWA
=============================================================================
