--------------------------- MODULE ErrorTransform ---------------------------
(***************************************************************************)
(* Error-state coordinates of pyins (error_model.py:33-51, 115-132,        *)
(* 214-300) on the exact domain of MeasModel: attitudes of the cube group  *)
(* with pitch 0, integer velocities.                                       *)
(*                                                                         *)
(* "Output" errors are INS minus truth in north/east/down metres, NED      *)
(* velocity and roll/pitch/heading DEGREES; "internal" errors are the      *)
(* states DR, DV, PHI of the modified phi-angle model.  Two descriptions   *)
(* again:                                                                  *)
(*  (a) code-shaped: transform_to_output = [[I,0,0],[0,I,skew(v)],         *)
(*      [0,0,J(rph)]] with J the matrix of _phi_to_delta_rph,              *)
(*      transform_to_internal = its inverse, the 2D variants through       *)
(*      T32 / TRANSFORM_2D_3D;                                             *)
(*  (b) derived: the first-order change of the state under the library's   *)
(*      own correction (p_true = p (-) DR, v_true = (I + phi x)(v - DV),   *)
(*      C_true = (I + phi x) C) read in output coordinates, where the      *)
(*      Euler angles are those of R = Rz(heading) Ry(pitch) Rx(roll):      *)
(*      roll = atan2(R32, R33), pitch = -asin(R31),                        *)
(*      heading = atan2(R21, R11); at pitch 0 their differentials have     *)
(*      integer coefficients.                                              *)
(* Attitude rows of (a) and (b) are in units of RAD_TO_DEG = 180/pi, the   *)
(* attitude columns of the inverse in units of DEG_TO_RAD; the integer     *)
(* parts are what TLC compares (the unit factor is bound by the replay).   *)
(***************************************************************************)
EXTENDS FirstOrder, MeasDomain

CONSTANTS RollQ, HeadQ,
          VelSkewFlip      \* FALSE = the code; TRUE = a sign slip in the velocity/attitude coupling block (sensitivity run: must be rejected)

VARIABLES alt, rq, hq, vel, emitted
vars == <<alt, rq, hq, vel, emitted>>

C == MatNBq(hq, rq)

(* (a) code-shaped *)
JCode == <<<<0 - CQ(hq), 0 - SQ(hq), 0>>, <<SQ(hq), 0 - CQ(hq), 0>>, <<0, 0, -1>>>>      \* _phi_to_delta_rph at pitch 0 (cos p = 1, sin p = 0)
Rows9(A, B, Cc) == A \o B \o Cc
ToOutput3Code == Rows9(Block3(I3, Z3, Z3), Block3(Z3, I3, IF VelSkewFlip THEN MNeg(Skew(vel)) ELSE Skew(vel)), Block3(Z3, Z3, JCode))
\* inverse of a block-triangular matrix; JCode is orthogonal, its inverse is its transpose
ToInternal3Code == Rows9(Block3(I3, Z3, Z3), Block3(Z3, I3, MNeg(MMul(Skew(vel), Tr(JCode)))), Block3(Z3, Z3, Tr(JCode)))
Sel2D3D == [i \in 1..7 |-> [j \in 1..9 |-> IF j = <<1, 2, 4, 5, 7, 8, 9>>[i] THEN 1 ELSE 0]]   \* TRANSFORM_2D_3D
ToOutputCode == IF alt THEN ToOutput3Code ELSE MMul(ToOutput3Code, T32CodeOf(vel))
ToInternalCode == IF alt THEN ToInternal3Code ELSE MMul(Sel2D3D, ToInternal3Code)

(* (b) derived *)
\* dR = (phi x) C for phi = e_m
DR(m) == MMul(Skew([k \in 1..3 |-> IF k = m THEN 1 ELSE 0]), C)
\* differentials of the Euler angles of R at pitch 0 (R32^2 + R33^2 = R11^2 + R21^2 = 1, sqrt(1 - R31^2) = 1)
DRoll(d) == C[3][3] * d[3][2] - C[3][2] * d[3][3]
DPitch(d) == 0 - d[3][1]
DHeading(d) == C[1][1] * d[2][1] - C[2][1] * d[1][1]
\* output attitude error = rph_ins - rph_true = -(d rph / d phi) phi
JDerived == <<[m \in 1..3 |-> 0 - DRoll(DR(m))], [m \in 1..3 |-> 0 - DPitch(DR(m))], [m \in 1..3 |-> 0 - DHeading(DR(m))]>>
ToOutput3Derived ==
  Rows9(Sel(0),                                         \* position error = DR
        MSub(Sel(3), PhiCross(vel)),                    \* v_ins - v_true = DV - phi x v
        MMul(JDerived, Sel(6)))
ToOutputDerived == IF alt THEN ToOutput3Derived ELSE MMul(ToOutput3Derived, T32DerivedOf(vel))

N == IF alt THEN 9 ELSE 7
Ident(n) == [i \in 1..n |-> [j \in 1..n |-> IF i = j THEN 1 ELSE 0]]

Init == alt \in BOOLEAN /\ rq \in RollQ /\ hq \in HeadQ /\ vel \in Vels /\ emitted = FALSE
Emit == /\ ~emitted /\ emitted' = TRUE
        /\ PrintT(<<"XFORM", alt, rq, hq, vel, ToOutputCode, ToInternalCode>>)
        /\ UNCHANGED <<alt, rq, hq, vel>>
Next == Emit
Spec == Init /\ [][Next]_vars

(* invariants (C05) *)
\* a correction changes the state by exactly what the internal-to-output transform predicts (to first order)
OutputIsDerivative == ToOutputCode = ToOutputDerived
\* the Euler-angle Jacobian is orthogonal at pitch 0 (so "its inverse is its transpose" above is sound) and does not depend on roll
JOrthogonal == MMul(JCode, Tr(JCode)) = I3
\* output-to-internal is a left inverse of internal-to-output, in both modes
LeftInverse == MMul(ToInternalCode, ToOutputCode) = Ident(N)
\* without altitude the down and vertical-velocity rows are identically zero
Rows2DZero == ~alt => \A j \in 1..7 : ToOutputCode[3][j] = 0 /\ ToOutputCode[6][j] = 0
Dims == Len(ToOutputCode) = 9 /\ Len(ToOutputCode[1]) = N /\ Len(ToInternalCode) = N /\ Len(ToInternalCode[1]) = 9
=============================================================================
