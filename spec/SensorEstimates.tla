--------------------------- MODULE SensorEstimates ---------------------------
(***************************************************************************)
(* Estimate state machine of EstimationModel (inertial_sensor.py:184-227)  *)
(* for the layout of mask M: reset_estimates, update_estimates(x),         *)
(* get_estimates, output_matrix(readings), correct_increments.  Integers    *)
(* stand for multiples                                                     *)
(* of 2^-6 (exact in floats).                                              *)
(*   bias[a]    accumulated bias estimate of axis a                        *)
(*   tr[o][i]   accumulated transform estimate MINUS the identity          *)
(*   sum        history variable: component-wise sum of the update vectors *)
(*              since the last reset                                       *)
(***************************************************************************)
EXTENDS Integers, Sequences, FiniteSets, TLC

CONSTANTS M, NVec, MaxOps, Accumulate     \* Accumulate = FALSE models `=` instead of `+=` in update_estimates

SM == INSTANCE SensorModel WITH mask <- M, emitted <- FALSE, SliceBits <- 0, Slice <- 0, Mode <- "slice"

St == SM!States(M)
NSt == Len(St)
\* a small family of integer update vectors, distinct per j and per component
Vec(j) == [k \in 1..NSt |-> ((j * k + j) % 5) - 2]
Readings == {<<1, 0, 0>>, <<0, 1, 0>>, <<2, -3, 5>>, <<-1, 4, 7>>}

VARIABLES bias, tr, sum, ops, ret
vars == <<bias, tr, sum, ops, ret>>

Zero3 == [a \in 1..3 |-> 0]
Zero33 == [o \in 1..3 |-> [i \in 1..3 |-> 0]]
ZeroN == [k \in 1..NSt |-> 0]

\* ret is a record whose field name says what was returned: values of different shapes are never compared with each other
\* (TLC's simulator compares states and fails on a sequence of integers against a sequence of sequences of equal length)
None == [none |-> TRUE]
Init == bias = Zero3 /\ tr = Zero33 /\ sum = ZeroN /\ ops = <<>> /\ ret = None

Reset ==
  /\ bias' = Zero3 /\ tr' = Zero33 /\ sum' = ZeroN
  /\ ops' = Append(ops, <<"reset">>) /\ ret' = None

\* sum over the states k that address bias axis a / transform element (o, i) - at most one by NamesUnique
Upd(x, code) == LET S == {k \in 1..NSt : St[k] = code} IN IF S = {} THEN 0 ELSE x[CHOOSE k \in S : TRUE]

Update(j) ==
  /\ LET x == Vec(j) IN
       /\ bias' = [a \in 1..3 |-> (IF Accumulate THEN bias[a] ELSE IF Upd(x, a) # 0 THEN 0 ELSE bias[a]) + Upd(x, a)]
       /\ tr' = [o \in 1..3 |-> [i \in 1..3 |-> (IF Accumulate THEN tr[o][i] ELSE IF Upd(x, 10 * o + i) # 0 THEN 0 ELSE tr[o][i]) + Upd(x, 10 * o + i)]]
       /\ sum' = [k \in 1..NSt |-> sum[k] + x[k]]
  /\ ops' = Append(ops, <<"update", j>>) /\ ret' = None

Estimates == [k \in 1..NSt |-> IF St[k] < 10 THEN bias[St[k]] ELSE tr[St[k] \div 10][St[k] % 10]]

Get ==
  /\ ret' = [get |-> Estimates]
  /\ ops' = Append(ops, <<"get">>)
  /\ UNCHANGED <<bias, tr, sum>>

\* output_matrix(r): H with r[i] written at (o, state of sm_oi); returned as rows of length NSt
HMat(r) == [a \in 1..3 |-> [k \in 1..NSt |->
              IF St[k] < 10 THEN (IF St[k] = a THEN 1 ELSE 0)
              ELSE IF St[k] \div 10 = a THEN r[St[k] % 10] ELSE 0]]
Dot(u, v) == LET RECURSIVE S(_) S(k) == IF k = 0 THEN 0 ELSE u[k] * v[k] + S(k - 1) IN S(Len(u))

OutputMatrix(r) ==
  /\ ret' = [h |-> HMat(r)]
  /\ ops' = Append(ops, <<"H", r>>)
  /\ UNCHANGED <<bias, tr, sum>>

\* correct_increments(dt, increments): solves (I + tr) y = increments - bias dt with the CURRENT estimates - a function of
\* the estimate state only, not of the history (a cached factorisation must be invalidated by reset as well as by update)
Correct ==
  /\ ret' = [corr |-> <<bias, tr>>]
  /\ ops' = Append(ops, <<"correct">>)
  /\ UNCHANGED <<bias, tr, sum>>

Bounded == Len(ops) < MaxOps
ResetAct == Bounded /\ Reset
UpdateAct == Bounded /\ \E j \in 1..NVec : Update(j)
GetAct == Bounded /\ Get
HAct == Bounded /\ \E r \in Readings : OutputMatrix(r)
CorrectAct == Bounded /\ Correct
Next == ResetAct \/ UpdateAct \/ GetAct \/ HAct \/ CorrectAct
Spec == Init /\ [][Next]_vars

\* accumulating estimates in several updates equals one update with their sum
Accumulates == Estimates = sum
\* disabled parameters are never touched
DisabledUntouched ==
  /\ \A a \in 1..3 : ~SM!Bias(M, a) => bias[a] = 0
  /\ \A o, i \in 1..3 : ~SM!Sm(M, o, i) => tr[o][i] = 0
\* output matrix times state vector = the error the simulator applies with parameters equal to the estimates:
\* (T - I) r + b
OutputMatrixIsErrorModel ==
  \A r \in Readings : \A a \in 1..3 :
     Dot(HMat(r)[a], Estimates) = tr[a][1] * r[1] + tr[a][2] * r[2] + tr[a][3] * r[3] + bias[a]
\* the layout's own index data agrees with the matrix built from the names
HMatMatchesLayout ==
  \A r \in Readings :
     /\ \A k \in 1..Len(SM!HOnes(M)) : HMat(r)[SM!HOnes(M)[k][1]][SM!HOnes(M)[k][2]] = 1
     /\ \A k \in 1..Len(SM!SmData(M)) : HMat(r)[SM!SmData(M)[k][1]][SM!SmData(M)[k][3]] = r[SM!SmData(M)[k][2]]
=============================================================================
