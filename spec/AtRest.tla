--------------------------- MODULE AtRest ---------------------------
(***************************************************************************)
(* What an IMU at rest on the Earth senses (C03, the exact sentence: "a    *)
(* body at rest at any latitude, altitude and attitude senses exactly      *)
(* Earth rate and the reaction to gravity"), at the cardinal latitudes     *)
(* -90, 0, 90 and the 64 cube-group attitudes: both vectors are then a     *)
(* signed unit vector times RATE resp. gravity.                            *)
(*   gyro  = C_nb' (cos lat, 0, -sin lat) RATE     (Earth rate in NED, as  *)
(*                                                  EarthFrame derives it) *)
(*   accel = C_nb' (0, 0, -1) g                    (the reaction to        *)
(*                                                  gravity points UP)     *)
(* with C_nb the Euler matrix of Attitude.tla.  Invariants state what this *)
(* means physically, independent of the matrix algebra: a level IMU feels  *)
(* the reaction on its z axis with a minus sign whatever its heading; at   *)
(* the equator a level IMU heading north feels Earth rate on its x axis,   *)
(* heading east on minus y; at the north pole a level IMU feels it on z    *)
(* with a minus sign (z is down, the rate vector up); turning the nose up  *)
(* at the equator while heading north puts Earth rate on z...              *)
(* Bound to the code: sim.generate_imu for a constant state, both sensor   *)
(* types.                                                                  *)
(***************************************************************************)
EXTENDS FirstOrder

VARIABLES latq, r, p, h, emitted
vars == <<latq, r, p, h, emitted>>

Ry(k) == <<<<CQ(k), 0, SQ(k)>>, <<0, 1, 0>>, <<0 - SQ(k), 0, CQ(k)>>>>
Cnb == MMul(Rz(h), MMul(Ry(p), Rx(r)))
RateN == <<CQ(latq), 0, 0 - SQ(latq)>>
Gyro == MVec(Tr(Cnb), RateN)
Accel == MVec(Tr(Cnb), <<0, 0, -1>>)
IsSignedUnit(v) == Cardinality({i \in 1..3 : v[i] # 0}) = 1 /\ \A i \in 1..3 : v[i] \in {-1, 0, 1}

Init == latq \in {3, 0, 1} /\ r \in 0..3 /\ p \in 0..3 /\ h \in 0..3 /\ emitted = FALSE
Emit == /\ ~emitted /\ emitted' = TRUE
        /\ PrintT(<<"REST", latq, r, p, h, Gyro, Accel>>)
        /\ UNCHANGED <<latq, r, p, h>>
Next == Emit
Spec == Init /\ [][Next]_vars

SignedUnits == IsSignedUnit(Gyro) /\ IsSignedUnit(Accel)
LevelFeelsReactionOnMinusZ == (r = 0 /\ p = 0) => Accel = <<0, 0, -1>>
EquatorLevel == (latq = 0 /\ r = 0 /\ p = 0) => Gyro = <<CQ(h), 0 - SQ(h), 0>>          \* heading north: +x; heading east: -y
PoleLevel == (r = 0 /\ p = 0) => (latq = 1 => Gyro = <<0, 0, -1>>) /\ (latq = 3 => Gyro = <<0, 0, 1>>)
NoseUpAtEquatorHeadingNorth == (latq = 0 /\ r = 0 /\ p = 1 /\ h = 0) => Gyro = <<0, 0, 1>> /\ Accel = <<1, 0, 0>>    \* the nose points up: the reaction pushes along +x, the polar axis lies along z
RightWingDown == (r = 1 /\ p = 0) => Accel = <<0, -1, 0>>                                \* roll +90: the reaction pushes along minus y
\* the two sensed vectors are perpendicular at the equator, (anti)parallel at the poles: Earth rate is horizontal resp. vertical
Geometry == Dot(Gyro, Accel) = SQ(latq)
=============================================================================
