--------------------------- MODULE KalmanExact ---------------------------
(***************************************************************************)
(* Kalman correction (kalman.py:49-89) on an exact domain.                 *)
(* An instance is [n, x0, P0, blocks]: integer prior mean and PSD          *)
(* covariance and independent measurement blocks [H, R, z].  Process(b) is *)
(* the textbook conditional-Gaussian update                                *)
(*     S = H P H' + R,  K = P H' S^-1,  x' = x + K (z - H x),              *)
(*     P' = P - K H P                                                      *)
(* written independently of the code's route (Cholesky solve + Joseph      *)
(* form).  TLC explores ALL ORDERINGS of the blocks of every instance and  *)
(* checks that the end state does not depend on the order, equals the      *)
(* joint (stacked) update and - where P0 is invertible - the information   *)
(* form; that P stays symmetric PSD and never exceeds the prior.           *)
(* Every step is printed (exact state, residual e, its covariance S) for   *)
(* the harness to compare kalman.correct with (leg R).                     *)
(***************************************************************************)
EXTENDS Exact, FiniteSets, TLC, KalmanInstances

VARIABLES inst, x, P, pending, order,
          joint, info     \* the one-shot stacked update and the information form, computed once per instance
vars == <<inst, x, P, pending, order, joint, info>>

I == Instances[inst]
NB == Len(I.blocks)
Hb(b) == MOfInt(I.blocks[b].H)
Rb(b) == MOfInt(I.blocks[b].R)
zb(b) == VOfInt(I.blocks[b].z)

Upd(xx, PP, H, R, z) ==
  LET S  == TLCEval(MAdd(MMul(MMul(H, PP), MT(H)), R))
      Kg == TLCEval(MMul(MMul(PP, MT(H)), Inv(S)))
      e  == TLCEval(VSub(z, MVec(H, xx)))
  IN [x |-> VAdd(xx, MVec(Kg, e)), P |-> MSub(PP, MMul(MMul(Kg, H), PP)), e |-> e, S |-> S]

\* stacked system of all blocks: H rows concatenated, R block diagonal
RECURSIVE StackH(_), StackZ(_), RowOffset(_)
StackH(k) == IF k = 0 THEN <<>> ELSE StackH(k - 1) \o Hb(k)
StackZ(k) == IF k = 0 THEN <<>> ELSE StackZ(k - 1) \o zb(k)
RowOffset(k) == IF k = 1 THEN 0 ELSE RowOffset(k - 1) + Len(I.blocks[k - 1].z)
NObs == RowOffset(NB) + Len(I.blocks[NB].z)
BlockOf(r) == CHOOSE k \in 1..NB : RowOffset(k) < r /\ r <= RowOffset(k) + Len(I.blocks[k].z)
StackR == [r \in 1..NObs |-> [c \in 1..NObs |->
             IF BlockOf(r) = BlockOf(c) THEN Rb(BlockOf(r))[r - RowOffset(BlockOf(r))][c - RowOffset(BlockOf(c))] ELSE Zero]]
Joint == TLCEval(Upd(VOfInt(I.x0), MOfInt(I.P0), TLCEval(StackH(NB)), TLCEval(StackR), TLCEval(StackZ(NB))))
\* information form (P0 invertible): P = (P0^-1 + sum H' R^-1 H)^-1 , x = P (P0^-1 x0 + sum H' R^-1 z)
RECURSIVE InfoM(_), InfoV(_)
InfoM(k) == IF k = 0 THEN Inv(MOfInt(I.P0)) ELSE MAdd(InfoM(k - 1), MMul(MMul(MT(Hb(k)), Inv(Rb(k))), Hb(k)))
InfoV(k) == IF k = 0 THEN MVec(Inv(MOfInt(I.P0)), VOfInt(I.x0)) ELSE VAdd(InfoV(k - 1), MVec(MMul(MT(Hb(k)), Inv(Rb(k))), zb(k)))

Init == /\ inst \in 1..Len(Instances)
        /\ x = VOfInt(Instances[inst].x0) /\ P = MOfInt(Instances[inst].P0)
        /\ pending = 1..Len(Instances[inst].blocks) /\ order = <<>>
        /\ joint = [x |-> Joint.x, P |-> Joint.P]
        /\ info = IF RSgn(Det(MOfInt(Instances[inst].P0))) # 0
                  THEN [ok |-> TRUE, P |-> Inv(InfoM(NB)), x |-> MVec(Inv(InfoM(NB)), InfoV(NB))]
                  ELSE [ok |-> FALSE]

Process(b) ==
  /\ b \in pending
  /\ LET u == Upd(x, P, Hb(b), Rb(b), zb(b)) IN
       /\ x' = u.x /\ P' = u.P
       /\ PrintT(<<"K", inst, Append(order, b), u.x, u.P, u.e, u.S>>)
  /\ pending' = pending \ {b} /\ order' = Append(order, b)
  /\ UNCHANGED <<inst, joint, info>>

Next == \E b \in 1..3 : Process(b)
Spec == Init /\ [][Next]_vars


OrderIndependent == pending = {} => (x = joint.x /\ P = joint.P)
InformationForm == (pending = {} /\ info.ok) => (P = info.P /\ x = info.x)
Symmetric == IsSym(P)
PosSemiDef == IsPSD(P)
NotLarger == IsPSD(MSub(MOfInt(I.P0), P))
\* the posterior variance of what was just measured lies between 0 and the measurement noise: H P' H' = R - R S^-1 R.
\* (A sign condition: it survives any conditioning of the prior, which is how the replay takes it into the cond ~ 1e10 regime.)
MeasuredVarianceBounded ==
  order # <<>> =>
    LET b == order[Len(order)]  V == MMul(MMul(Hb(b), P), MT(Hb(b)))
    IN IsPSD(V) /\ IsPSD(MSub(Rb(b), V))
=============================================================================
