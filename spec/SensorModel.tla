--------------------------- MODULE SensorModel ---------------------------
(***************************************************************************)
(* Layout of pyins.inertial_sensor.EstimationModel                         *)
(* (inertial_sensor.py:65-150) for every enable mask, and the naming rule  *)
(* of the simulator's parameter table (Parameters.apply,                   *)
(* inertial_sensor.py:346-356).                                            *)
(*                                                                         *)
(* A mask is an 18-bit integer:                                            *)
(*   bit a-1        bias of axis a enabled            (a in 1..3)          *)
(*   bit 3+a-1      bias walk of axis a enabled                            *)
(*   bit 6+a-1      output noise of axis a enabled                         *)
(*   bit 9+3(o-1)+i-1   scale/misalignment element (o, i) enabled          *)
(* State codes: bias_a -> a ; sm_oi -> 10 o + i.                           *)
(*                                                                         *)
(* TLC enumerates the masks of one slice (the top SliceBits bits are fixed *)
(* to Slice), evaluates the layout invariants on each and prints the       *)
(* layout as one line of integers; the harness builds the real model with  *)
(* a distinct prime in every slot and compares (leg R).                    *)
(***************************************************************************)
EXTENDS Integers, Sequences, FiniteSets, TLC

CONSTANTS SliceBits, Slice, Mode        \* Mode: "slice" | "corners" (masks of weight <= 2 or >= 16, Slice ignored)

VARIABLES mask, emitted
vars == <<mask, emitted>>

Bit(m, k) == (m \div (2 ^ k)) % 2 = 1
Weight(m) == Cardinality({k \in 0..17 : Bit(m, k)})
Bias(m, a) == Bit(m, a - 1)
Walk(m, a) == Bit(m, 3 + a - 1)
Noise(m, a) == Bit(m, 6 + a - 1)
Sm(m, o, i) == Bit(m, 9 + 3 * (o - 1) + i - 1)
Axes == 1..3

\* ValueError in the constructor: walk enabled on an axis whose bias is not
Rejected(m) == \E a \in Axes : Walk(m, a) /\ ~Bias(m, a)

\* ordered selections
SelSeq(P(_), dom) == SelectSeq(dom, P)
BiasAxes(m) == SelectSeq(<<1, 2, 3>>, LAMBDA a : Bias(m, a))
WalkAxes(m) == SelectSeq(<<1, 2, 3>>, LAMBDA a : Bias(m, a) /\ Walk(m, a))
NoiseAxes(m) == SelectSeq(<<1, 2, 3>>, LAMBDA a : Noise(m, a))
SmPairs(m) == SelectSeq(<<11, 12, 13, 21, 22, 23, 31, 32, 33>>, LAMBDA c : Sm(m, c \div 10, c % 10))

\* the state vector: biases in axis order, then scale/misalignment elements row-major (output axis major)
States(m) == BiasAxes(m) \o SmPairs(m)
NStates(m) == Len(States(m))
NNoises(m) == Len(WalkAxes(m))
NOut(m) == Len(NoiseAxes(m))
IndexOf(s, x) == CHOOSE k \in 1..Len(s) : s[k] = x
\* ones of G: (state index of bias_a, index of a among the walk axes)
GOnes(m) == [n \in 1..NNoises(m) |-> <<IndexOf(States(m), WalkAxes(m)[n]), n>>]
\* ones of H: (axis, state index of bias_axis)
HOnes(m) == [k \in 1..Len(BiasAxes(m)) |-> <<BiasAxes(m)[k], k>>]
\* ones of J: (axis, index among noise axes)
JOnes(m) == [n \in 1..NOut(m) |-> <<NoiseAxes(m)[n], n>>]
\* scale/misalignment index data: (output axis, input axis, state index)
SmData(m) == [k \in 1..Len(SmPairs(m)) |-> <<SmPairs(m)[k] \div 10, SmPairs(m)[k] % 10, Len(BiasAxes(m)) + k>>]

\* the simulator's parameter table columns for parameters that are non-zero / non-nominal exactly on the mask
SimColumns(m) ==
  SelectSeq(<<1, 2, 3>>, LAMBDA a : Bias(m, a) \/ Walk(m, a)) \o SmPairs(m)

Layout(m) == <<m, IF Rejected(m) THEN 1 ELSE 0, NStates(m), NNoises(m), NOut(m), States(m), WalkAxes(m), NoiseAxes(m),
               GOnes(m), HOnes(m), JOnes(m), SmData(m), SimColumns(m)>>

Full == 2 ^ 18 - 1
Low == {0} \cup {2 ^ i : i \in 0..17} \cup {2 ^ i + 2 ^ j : i \in 0..16, j \in 1..17}   \* weight <= 2 (i = j gives a weight-1 mask again)
Masks ==
  IF Mode = "corners" THEN Low \cup {Full - m : m \in Low}
  ELSE {Slice * 2 ^ (18 - SliceBits) + r : r \in 0..(2 ^ (18 - SliceBits) - 1)}

Init == mask \in Masks /\ emitted = FALSE
Emit == ~emitted /\ PrintT(Layout(mask)) /\ emitted' = TRUE /\ UNCHANGED mask
Next == Emit
Spec == Init /\ [][Next]_vars

(***************************************************************************)
(* Invariants: mutual consistency of names, dimensions, initial covariance *)
(* and noise matrices (C14, second sentence)                               *)
(***************************************************************************)
Valid == ~Rejected(mask)
DimsAgree == Valid =>
   /\ NStates(mask) = Cardinality({a \in Axes : Bias(mask, a)}) + Cardinality({c \in (Axes \X Axes) : Sm(mask, c[1], c[2])})
   /\ NNoises(mask) = Cardinality({a \in Axes : Walk(mask, a)})
   /\ NOut(mask) = Cardinality({a \in Axes : Noise(mask, a)})
   /\ NStates(mask) <= 12 /\ NNoises(mask) <= 3 /\ NOut(mask) <= 3
NamesUnique == Valid => \A j, k \in 1..NStates(mask) : j # k => States(mask)[j] # States(mask)[k]
HSelectsOwnAxis == Valid => \A k \in 1..Len(HOnes(mask)) :
   LET ax == HOnes(mask)[k][1]  st == HOnes(mask)[k][2] IN States(mask)[st] = ax
WalkDrivesOwnBias == Valid => \A n \in 1..NNoises(mask) :
   LET st == GOnes(mask)[n][1] IN States(mask)[st] = WalkAxes(mask)[n] /\ st <= Len(BiasAxes(mask))
\* each noise source drives exactly one state and distinct sources distinct states
GInjective == Valid => \A j, k \in 1..NNoises(mask) : j # k => GOnes(mask)[j][1] # GOnes(mask)[k][1]
NoiseOnOwnAxis == Valid => \A n \in 1..NOut(mask) : JOnes(mask)[n][1] = NoiseAxes(mask)[n]
SmRowMajorAfterBias == Valid => \A k \in 1..Len(SmData(mask)) :
   /\ SmData(mask)[k][3] = Len(BiasAxes(mask)) + k
   /\ States(mask)[SmData(mask)[k][3]] = 10 * SmData(mask)[k][1] + SmData(mask)[k][2]
   /\ (k > 1 => SmPairs(mask)[k - 1] < SmPairs(mask)[k])
\* estimator state names = simulator table columns (same names, same order)
NamesMatchSimulator == Valid => SimColumns(mask) = States(mask)
=============================================================================
