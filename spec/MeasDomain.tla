--------------------------- MODULE MeasDomain ---------------------------
EXTENDS Integers
(* Value domain of MeasModel (a cfg file cannot hold tuples); the harness regenerates this module per tier. *)
Vels == {<<0, 0, 0>>, <<3, -2, 1>>, <<0, 5, 0>>, <<-4, 1, -2>>}
Levers == {<<>>, <<0, 0, 0>>, <<2, 0, 0>>, <<0, -3, 1>>}
Rates == {<<>>, <<0, 0, 0>>, <<0, 0, 2>>, <<1, -1, 0>>}
Forces == {<<0, 0, -7>>, <<3, -2, 1>>}
BodyRates == {<<0, 0, 0>>, <<1, -1, 2>>}
=============================================================================
