--------------------------- MODULE FeedforwardFilterSim ---------------------------
(* Behaviour generator for leg R (`tlc -simulate`), see FeedbackFilterSim. *)
EXTENDS FeedforwardFilter

VARIABLE phase
svars == <<vars, phase>>

Dummy == [times |-> <<0, 1>>, meas |-> [s \in 1..NSensors |-> {}], hz |-> <<1, 2>>, inct |-> {}]

SimInit == cfg = Dummy /\ InitLoop /\ phase = "setup"

Setup ==
  /\ phase = "setup"
  /\ \E S \in {RandomElement({X \in SUBSET (0..MaxTick) : Cardinality(X) >= 2 /\ 0 \in X})} :
     \E St \in {RandomElement({X \in SUBSET Stamps : Cardinality(X) <= MaxMeas})} :
     \E f \in {RandomElement([St -> (SUBSET (1..NSensors)) \ {{}}])} :
     \E step \in {RandomElement(Steps)} :
        cfg' = [times |-> Sorted(S),
                meas  |-> [s \in 1..NSensors |-> {t \in St : s \in f[t]}],
                hz    |-> [k \in 1..Cardinality(S) |-> Sorted(S)[k] + step],
                inct  |-> S]
  /\ phase' = "run"
  /\ UNCHANGED <<index, mi, didMeas, done, resT, used, innovT, batches, covT, alphas, bad>>

SimProcessMeas == phase = "run" /\ ProcessMeas /\ UNCHANGED phase
SimAdvance == phase = "run" /\ Advance /\ UNCHANGED phase
SimFinish == phase = "run" /\ Finish /\ UNCHANGED phase
SimNext == Setup \/ SimProcessMeas \/ SimAdvance \/ SimFinish
=============================================================================
