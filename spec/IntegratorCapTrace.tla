--------------------------- MODULE IntegratorCapTrace ---------------------------
(* Trace validation of long real call histories around the default capacity (10 000 rows) against the
   counter abstraction IntegratorCap. *)
EXTENDS IntegratorCap, TLC, Json, IOUtils, Sequences

Traces == ndJsonDeserialize(IOEnv.TRACE_FILE)
VARIABLES tid, l
tvars == <<cvars, tid, l>>
Tr == Traces[tid]
Ops == Tr.ops

Clauses == [
  rows_bit_identical |-> \A k \in 1..Len(Ops) : Ops[k].rows_ok,
  returns_ok         |-> \A k \in 1..Len(Ops) : Ops[k].ret_ok,
  index_once         |-> \A k \in 1..Len(Ops) : Ops[k].index_ok,
  in_bounds          |-> \A k \in 1..Len(Ops) : Ops[k].cap >= Ops[k].n + (IF Ops[k].op = "P" THEN 1 ELSE 0),
  no_exception       |-> Tr.exc = ""
]
Failing == {c \in DOMAIN Clauses : ~Clauses[c]}

TraceInit == tid \in 1..Len(Traces) /\ CInit /\ l = 0

Contract == l = 0 /\ PrintT(<<"CONTRACT", Tr.tid, Failing>>) /\ l' = 1 /\ UNCHANGED <<cvars, tid>>

Step ==
  /\ l >= 1 /\ l <= Len(Ops)
  /\ LET o == Ops[l] IN
       /\ \/ o.op = "I" /\ CIntegrate(o.k)
          \/ o.op = "P" /\ CPredict
          \/ o.op \in {"S", "G"} /\ CObserve
       /\ cn' = o.n /\ ccap' = o.cap
  /\ l' = l + 1 /\ UNCHANGED tid

Accept ==
  /\ l = Len(Ops) + 1
  /\ TLCSet(1, TLCGet(1) + 1)
  /\ PrintT(<<"ACCEPT", Tr.tid>>)
  /\ l' = l + 1 /\ UNCHANGED <<cvars, tid>>

TraceNext == Contract \/ Step \/ Accept
TraceSpec == TraceInit /\ [][TraceNext]_tvars
ASSUME TLCSet(1, 0)
=============================================================================
