--------------------------- MODULE ErrorDynamics ---------------------------
(***************************************************************************)
(* Error dynamics of pyins (InsErrorModel.system_matrices, error_model.py  *)
(* :138-211) on the exact domain of MeasModel / ErrorTransform: attitudes  *)
(* of the cube group with pitch 0, integer velocities (C04, the part that  *)
(* is an identity).                                                        *)
(*                                                                         *)
(*     dx/dt = F x + B_gyro eps + B_accel acc ,   x = (DR, DV, PHI)        *)
(*                                                                         *)
(* What is exact is the KINEMATIC SKELETON of the model: the two coupling  *)
(* matrices entirely, and of F the blocks that contain no Earth parameter  *)
(* (rotation rate, curvature, gravity gradient): d DR / d DV, d DR / d PHI *)
(* and d DV / d PHI = -[g x] with g = (0, 0, G) a formal integer gravity.  *)
(* The remaining blocks of F are products of Earth rate and curvature with *)
(* transcendental entries; they are measured, not modelled (check_c04.py,  *)
(* numeric predicates).                                                    *)
(*                                                                         *)
(* Two descriptions again:                                                 *)
(*  (a) code-shaped: the block assignments of system_matrices and its 2D   *)
(*      reduction T_2d_3d (.) T_3d_2d;                                     *)
(*  (b) derived: nothing of the code.  The library's correction convention *)
(*          p_ins = p (+) DR,  v_ins = (I - phi x) v + DV,                 *)
(*          C_ins = (I - phi x) C                                          *)
(*      differentiated in time along the navigation kinematics             *)
(*          p' = v,   v' = C f + g,   C' = C [w x]                         *)
(*      for the truth and, with sensor errors, for the INS                 *)
(*          v_ins' = C_ins (f + acc) + g,  C_ins' = C_ins [(w + eps) x],   *)
(*      to first order in the 15 unknowns u = (DR, DV, PHI, eps, acc): a   *)
(*      first-order quantity is its 3 x 15 integer coefficient matrix.     *)
(*      The specific force f ranges over a set of integer vectors: that it *)
(*      cancels ("eliminates specific force from the system matrix", the   *)
(*      documented feature of the modified phi-angle model) is decided,    *)
(*      not assumed (SpecificForceFree).                                   *)
(***************************************************************************)
EXTENDS FirstOrder, MeasDomain

CONSTANTS RollQ, HeadQ, G,
          Premise2D,       \* TRUE = without altitude the vertical specific force balances gravity; FALSE = any (sensitivity run: the 2D model is then NOT the derivative)
          GyroVelFlip      \* FALSE = the code; TRUE = a sign slip in the gyro-error / velocity-error coupling (sensitivity run: must be rejected)

VARIABLES alt, rq, hq, vel, f, emitted
vars == <<alt, rq, hq, vel, f, emitted>>

C == MatNBq(hq, rq)
E(k) == [i \in 1..3 |-> IF i = k THEN 1 ELSE 0]
Grav == <<0, 0, G>>
Z33 == Z3
Rows3(A, B, D) == A \o B \o D
HCat(A, B) == [i \in 1..Len(A) |-> A[i] \o B[i]]

(* (a) code-shaped *)
FCode3 == Rows3(Block3(Z3, I3, Skew(vel)), Block3(Z3, Z3, MNeg(Skew(Grav))), Block3(Z3, Z3, Z3))     \* the Earth-free blocks of F
BGyroCode3 == Rows3(Z3, IF GyroVelFlip THEN MNeg(MMul(Skew(vel), C)) ELSE MMul(Skew(vel), C), MNeg(C))
BAccelCode3 == Rows3(Z3, C, Z3)
Sel2D3D == [i \in 1..7 |-> [j \in 1..9 |-> IF j = <<1, 2, 4, 5, 7, 8, 9>>[i] THEN 1 ELSE 0]]           \* TRANSFORM_2D_3D
FCode == IF alt THEN FCode3 ELSE MMul(MMul(Sel2D3D, FCode3), T32CodeOf(vel))
BGyroCode == IF alt THEN BGyroCode3 ELSE MMul(Sel2D3D, BGyroCode3)
BAccelCode == IF alt THEN BAccelCode3 ELSE MMul(Sel2D3D, BAccelCode3)

(* (b) derived: 3 x 15 coefficient matrices over u = (DR 1..3, DV 4..6, PHI 7..9, eps 10..12, acc 13..15) *)
S15(off) == [i \in 1..3 |-> [j \in 1..15 |-> IF j = off + i THEN 1 ELSE 0]]
DRm == S15(0)
DVm == S15(3)
PHIm == S15(6)
EPSm == S15(9)
ACCm == S15(12)
\* first-order part of  (I - phi x) a  for a constant vector a:   -phi x a = [a x] phi
MinusPhiCross(a) == MMul(Skew(a), PHIm)
\* attitude: C_ins' = C_ins [(w + eps) x] and C_ins = (I - phi x) C give  -[phi' x] = C [eps x] C'  (the w terms cancel identically):
\* the coefficient of eps_k in phi' is minus the vector of the antisymmetric matrix C [e_k x] C'
Vee(A) == <<A[3][2], A[1][3], A[2][1]>>
PhiDotCol(k) == LET A == MMul(MMul(C, Skew(E(k))), Tr(C)) IN [i \in 1..3 |-> 0 - Vee(A)[i]]
PhiDot == [i \in 1..3 |-> [j \in 1..15 |-> IF j \in 10..12 THEN PhiDotCol(j - 9)[i] ELSE 0]]
\* position: DR' = v_ins - v = DV - phi x v
DRDot == MAdd(DVm, MinusPhiCross(vel))
\* velocity: DV = v_ins - (I - phi x) v, hence DV' = v_ins' - v' + phi' x v + phi x v' with
\*   v' = C f + g (truth),  v_ins' = (I - phi x) C (f + acc) + g (INS), first-order part  -phi x (C f) + C acc
\* The specific force resolved in NED, FN = C f.  WITHOUT ALTITUDE the integrator keeps the vertical velocity at zero, i.e. the
\* vertical channel is v3' = 0 for the truth and the INS alike; the premise of that mode is a vehicle in vertical equilibrium,
\* FN3 = -G, and only under it is the 2D model the derivative (measured on the real integrator: with FN3 # -g the velocity /
\* attitude block of the measured sensitivity is [FN3 x], not -[g x] - DESIGN.md s6 C04).  The model makes the premise explicit.
FNOf(ff) == LET cf == MVec(C, ff) IN IF alt \/ ~Premise2D THEN cf ELSE <<cf[1], cf[2], 0 - G>>
FN == FNOf(f)
VDotOf(ff) == LET a == VAdd(FNOf(ff), Grav) IN IF alt THEN a ELSE <<a[1], a[2], 0>>     \* without altitude v3' = 0 (under the premise a[3] = 0 anyway)
DVDotOf(ff) == MAdd(MAdd(MAdd(MinusPhiCross(FNOf(ff)), MMul(C, ACCm)),       \* v_ins' - v'
                         MNeg(MMul(Skew(vel), PhiDot))),                    \* phi' x v = -[v x] phi'
                    MNeg(MinusPhiCross(VDotOf(ff))))                        \* phi x v'
DVDot == DVDotOf(f)
Derived3 == Rows3(DRDot, DVDot, PhiDot)                                       \* 9 x 15 = [F | B_gyro | B_accel]
\* without altitude: DR3 = 0 and DV3 tied by the convention (T32DerivedOf); the rows of DR3 and DV3 are dropped
Wide(T) == [i \in 1..15 |-> [j \in 1..13 |->
              IF i <= 9 /\ j <= 7 THEN T[i][j] ELSE IF i > 9 /\ j = i - 2 THEN 1 ELSE 0]]
Derived == IF alt THEN Derived3 ELSE MMul(MMul(Sel2D3D, Derived3), Wide(T32DerivedOf(vel)))
N == IF alt THEN 9 ELSE 7
Code == HCat(HCat(FCode, BGyroCode), BAccelCode)

Init == alt \in BOOLEAN /\ rq \in RollQ /\ hq \in HeadQ /\ vel \in Vels /\ f \in Vels /\ emitted = FALSE
Emit == /\ ~emitted /\ emitted' = TRUE
        /\ PrintT(<<"DYN", alt, rq, hq, vel, f, FCode, BGyroCode, BAccelCode>>)
        /\ UNCHANGED <<alt, rq, hq, vel, f>>
Next == Emit
Spec == Init /\ [][Next]_vars

(* invariants (C04, the kinematic skeleton) *)
\* the model's matrices are the first-order time derivative of the error state under the library's own correction convention
DynamicsIsDerivative == Code = Derived
\* the specific force does not enter: the derived matrix for f equals the one for f = 0 (every term in f cancels)
DerivedAt(ff) == Rows3(DRDot, DVDotOf(ff), PhiDot)
SpecificForceFree == DerivedAt(f) = DerivedAt(<<0, 0, 0>>)
\* a gyro error turns the platform at minus itself resolved in NED and reaches velocity only through the velocity itself;
\* an accelerometer error is a velocity-error rate resolved in NED and nothing else
CouplingShape == /\ \A i \in 1..(IF alt THEN 3 ELSE 2) : \A j \in 1..3 : BGyroCode[i][j] = 0 /\ BAccelCode[i][j] = 0
                 /\ \A i \in (N - 2)..N : \A j \in 1..3 : BAccelCode[i][j] = 0
                 /\ (vel = <<0, 0, 0>> => \A i \in 1..(N - 3) : \A j \in 1..3 : BGyroCode[i][j] = 0)
\* the attitude rows of B_gyro are an orthogonal matrix (-C): a gyro error is never amplified or lost
GyroOrthogonal == LET P == [i \in 1..3 |-> BGyroCode[N - 3 + i]] IN MMul(P, Tr(P)) = I3
Dims == Len(FCode) = N /\ Len(FCode[1]) = N /\ Len(BGyroCode) = N /\ Len(BGyroCode[1]) = 3 /\ Len(BAccelCode) = N /\ Len(BAccelCode[1]) = 3
=============================================================================
