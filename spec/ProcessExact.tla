--------------------------- MODULE ProcessExact ---------------------------
(***************************************************************************)
(* Discretisation of a continuous linear system (kalman.py:22-46) on an    *)
(* exact domain: nilpotent integer dynamics F (F^4 = 0), integer PSD noise *)
(* density Q, dyadic steps.  From the DEFINITION of the integrals - not    *)
(* from Van Loan's block exponential the code uses -                       *)
(*    Phi(t) = sum_k F^k t^k / k!                                          *)
(*    Qd(t)  = int_0^t Phi(s) Q Phi(s)' ds                                 *)
(*           = sum_{i,j} F^i Q (F')^j t^(i+j+1) / (i! j! (i+j+1))          *)
(* are finite rational sums.  State: elapsed time and the accumulated      *)
(* transition / noise matrices; Step(d) composes one more sub-step:        *)
(*    PhiAcc' = Phi(d) PhiAcc,  QAcc' = Phi(d) QAcc Phi(d)' + Qd(d).       *)
(* TLC explores ALL PARTITIONS of the total step into sub-steps from Dts   *)
(* (in every order) and checks that the accumulated matrices are those of  *)
(* the elapsed time in one shot - covariance propagation does not depend   *)
(* on how time is partitioned.                                             *)
(***************************************************************************)
EXTENDS Exact, FiniteSets, ProcessInstances

VARIABLES inst, elapsed, PhiAcc, QAcc, path,
          fp, cf        \* per instance, computed once: fp[k] = F^(k-1), cf[4 i + j + 1] = F^i Q (F')^j
vars == <<inst, elapsed, PhiAcc, QAcc, path, fp, cf>>

I == Instances[inst]
N == I.n
Fm == MOfInt(I.F)
Qm == MOfInt(I.Q)
Fact(k) == CASE k = 0 -> 1 [] k = 1 -> 1 [] k = 2 -> 2 [] k = 3 -> 6
RECURSIVE FPow(_), RPow(_, _)
FPow(k) == IF k = 0 THEN Ident(N) ELSE MMul(Fm, FPow(k - 1))
RPow(t, k) == IF k = 0 THEN One ELSE RMul(t, RPow(t, k - 1))
RECURSIVE MSum(_, _)
MSum(f, k) == IF k = 0 THEN ZeroM(N, N) ELSE MAdd(f[k], MSum(f, k - 1))       \* f: sequence of matrices (a value)

Phi(t) == LET G(tt) == MSum(TLCEval([k \in 1..4 |-> MScale(RDiv(RPow(tt, k - 1), Q(Fact(k - 1))), fp[k])]), 4)
          IN Bind1(G, t)
Qd(t) == LET G(tt) == MSum(TLCEval([m \in 1..16 |->
                 LET i == (m - 1) \div 4  j == (m - 1) % 4
                 IN MScale(RDiv(RPow(tt, i + j + 1), Q(Fact(i) * Fact(j) * (i + j + 1))), cf[m])]), 16)
         IN Bind1(G, t)

Dts == I.dts                              \* sequence of rationals <<num, den>>
Total == I.total

Init == /\ inst \in 1..Len(Instances)
        /\ elapsed = Zero
        /\ PhiAcc = Ident(Instances[inst].n) /\ QAcc = ZeroM(Instances[inst].n, Instances[inst].n)
        /\ path = <<>>
        /\ fp = TLCEval([k \in 1..5 |-> FPow(k - 1)])
        /\ cf = TLCEval([m \in 1..16 |-> MMul(MMul(FPow((m - 1) \div 4), Qm), MT(FPow((m - 1) % 4)))])

Step(k) ==
  /\ k \in 1..Len(Dts)
  /\ RLe(RAdd(elapsed, Dts[k]), Total)
  /\ \E ph \in {Phi(Dts[k])}, qd \in {Qd(Dts[k])} :
       /\ PhiAcc' = MMul(ph, PhiAcc)
       /\ QAcc' = MAdd(MMul(MMul(ph, QAcc), MT(ph)), qd)
       /\ PrintT(<<"P", inst, Append(path, k), RAdd(elapsed, Dts[k]), PhiAcc', QAcc', ph, qd>>)
  /\ elapsed' = RAdd(elapsed, Dts[k])
  /\ path' = Append(path, k)
  /\ UNCHANGED <<inst, fp, cf>>

Next == \E k \in 1..4 : Step(k)
Spec == Init /\ [][Next]_vars

Nilpotent == fp[5] = ZeroM(N, N)                       \* the family really is inside the exact domain
Composes == PhiAcc = Phi(elapsed) /\ QAcc = Qd(elapsed)
Symmetric == IsSym(QAcc)
PosSemiDef == IsPSD(QAcc)
\* zero step: Phi(0) = I and Qd(0) = 0 - this is Composes in the initial state (elapsed = 0)
ZeroStep == elapsed = Zero => (Phi(Zero) = Ident(N) /\ Qd(Zero) = ZeroM(N, N))
=============================================================================
