--------------------------- MODULE ExactlyOnceApa ---------------------------
EXTENDS Integers
CONSTANTS
  \* @type: Bool;
  Inner
VARIABLES
  \* @type: Int;
  i,
  \* @type: Int;
  mi,
  \* @type: Int;
  b,
  \* @type: Int;
  d,
  \* @type: Int;
  n,
  \* @type: Int;
  m,
  \* @type: Bool;
  fin
INSTANCE ExactlyOnce
ConstInitT == Inner = TRUE
ConstInitF == Inner = FALSE
IndInit == EIndInv
Implied == EIndInv => (NoneLeftBehind /\ OnlyDue /\ AllUsedOnce)
=============================================================================
