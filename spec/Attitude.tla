--------------------------- MODULE Attitude ---------------------------
(***************************************************************************)
(* Attitude representations of pyins on the cube group (C17, the part that *)
(* is exact): roll, pitch, heading in quarter turns (0, 90, 180, -90       *)
(* degrees) and rotation vectors that are quarter turns about a coordinate *)
(* axis or thirds of a turn about a body diagonal.  Every matrix is an     *)
(* integer matrix.                                                         *)
(*                                                                         *)
(* The DOCUMENTED CONVENTION is stated independently of any product        *)
(* formula, by where body axes go:                                         *)
(*   NoseDirection   the body x axis (nose) points to                      *)
(*                   (cos h cos p, sin h cos p, -sin p) in NED: heading is *)
(*                   positive from north towards east, pitch positive      *)
(*                   nose-up;                                              *)
(*   DownInBody      NED down seen from the body is                        *)
(*                   (-sin p, cos p sin r, cos p cos r): roll positive     *)
(*                   right-wing-down (what levelled accelerometers sense). *)
(* A proper rotation is determined by one column and one row, so these two *)
(* with Proper pin the matrix; EulerMatrix (the code's Rz Ry Rx, transform *)
(* .py:508-522) must satisfy them in all 64 configurations.                *)
(* RoundTrip: away from pitch +-90 the angles are recovered from the       *)
(* matrix entries (atan2 / asin on the cube group are table look-ups).     *)
(* Rotation vectors: quarter turns about axis k are Rx / Ry / Rz; thirds   *)
(* of a turn about the diagonal (s1, s2, s3)/sqrt 3 permute the axes       *)
(* cyclically; ExpAxisGroupLaw, DiagCubed, EulerIsAxisProduct tie the two  *)
(* representations together.                                               *)
(* Bound to the code (leg R): mat_from_rph / mat_to_rph (single, stacked), *)
(* _numba_integrate.mat_from_rotvec at the same points; plus two numeric   *)
(* predicates computed by the harness and labelled as such (no jump across *)
(* the small-angle branch; first-order agreement at tiny vectors).         *)
(***************************************************************************)
EXTENDS FirstOrder

VARIABLES kind, a, b, c, emitted          \* kind "rph": (a,b,c) = (roll, pitch, heading) quarter turns;
vars == <<kind, a, b, c, emitted>>        \* kind "axis": a = axis 1..3, b = quarter turns; kind "diag": (a,b,c) = signs, emitted counts thirds

Ry(k) == <<<<CQ(k), 0, SQ(k)>>, <<0, 1, 0>>, <<0 - SQ(k), 0, CQ(k)>>>>
EulerMatrix(r, p, h) == MMul(Rz(h), MMul(Ry(p), Rx(r)))
ExpAxis(k, q) == CASE k = 1 -> Rx(q) [] k = 2 -> Ry(q) [] OTHER -> Rz(q)
Perm == <<<<0, 0, 1>>, <<1, 0, 0>>, <<0, 1, 0>>>>                      \* e1 -> e2 -> e3 -> e1
\* a third of a turn (+120 degrees, right-handed) about (s1, s2, s3)/sqrt 3: conjugating the cyclic permutation by the reflection
\* diag(s) keeps the axis but reverses the sense when an odd number of signs is negative
ExpDiag(s) == IF s[1] * s[2] * s[3] = 1 THEN [i \in 1..3 |-> [j \in 1..3 |-> s[i] * s[j] * Perm[i][j]]]
              ELSE [i \in 1..3 |-> [j \in 1..3 |-> s[i] * s[j] * Perm[j][i]]]
Det3(M) == M[1][1] * (M[2][2] * M[3][3] - M[2][3] * M[3][2]) - M[1][2] * (M[2][1] * M[3][3] - M[2][3] * M[3][1])
           + M[1][3] * (M[2][1] * M[3][2] - M[2][2] * M[3][1])
IsProper(M) == MMul(M, Tr(M)) = I3 /\ Det3(M) = 1

\* atan2 and asin on {-1, 0, 1}: quarter turns
Atan2Q(y, x) == CASE x = 1 /\ y = 0 -> 0 [] x = 0 /\ y = 1 -> 1 [] x = -1 /\ y = 0 -> 2 [] x = 0 /\ y = -1 -> 3 [] OTHER -> 9
AsinQ(s) == CASE s = 0 -> 0 [] s = 1 -> 1 [] OTHER -> 3
RphOf(M) == <<Atan2Q(M[3][2], M[3][3]), AsinQ(0 - M[3][1]), Atan2Q(M[2][1], M[1][1])>>

Init == \/ kind = "rph" /\ a \in 0..3 /\ b \in 0..3 /\ c \in 0..3 /\ emitted = 0
        \/ kind = "axis" /\ a \in 1..3 /\ b \in 0..3 /\ c = 0 /\ emitted = 0
        \/ kind = "diag" /\ a \in {-1, 1} /\ b \in {-1, 1} /\ c \in {-1, 1} /\ emitted = 0
        \/ kind = "pair" /\ a \in 0..15 /\ b \in 0..15 /\ c = 0 /\ emitted = 0
\* kind "pair" (used by C18, resample_state: "interpolates attitude along the shortest rotation"): two level attitudes
\* A = (roll a % 4, pitch 0, heading a \div 4) and B likewise; M is the relative rotation B A' the interpolation has to traverse.
\* When its angle is below 180 degrees (trace > -1: 0, 90 or 120 degrees on the cube group) the attitude at the fraction t of the
\* interval is the unique D_t A with D_t a rotation about the same axis by t times the angle, i.e. (D_t)^(1/t) = M - which the
\* replay checks on the real function at t = 1/4, 1/2, 3/4 without ever forming an irrational matrix.
PairA == EulerMatrix(a % 4, 0, a \div 4)
PairB == EulerMatrix(b % 4, 0, b \div 4)
Trace3(X) == X[1][1] + X[2][2] + X[3][3]
M == CASE kind = "rph" -> EulerMatrix(a, b, c) [] kind = "axis" -> ExpAxis(a, b) [] kind = "diag" -> ExpDiag(<<a, b, c>>)
       [] OTHER -> MMul(PairB, Tr(PairA))
Emit == /\ emitted = 0 /\ emitted' = 1
        /\ PrintT(<<"ATT", kind, a, b, c, M, IF kind = "rph" /\ CQ(b) # 0 THEN RphOf(M) ELSE IF kind = "pair" THEN <<Trace3(M)>> ELSE <<>>>>)
        /\ UNCHANGED <<kind, a, b, c>>
Next == Emit
Spec == Init /\ [][Next]_vars

Proper == IsProper(M)
NoseDirection == kind = "rph" => Col(M, 1) = <<CQ(c) * CQ(b), SQ(c) * CQ(b), 0 - SQ(b)>>
DownInBody == kind = "rph" => M[3] = <<0 - SQ(b), CQ(b) * SQ(a), CQ(b) * CQ(a)>>
\* the three named conventions, literally
Conventions == /\ Col(EulerMatrix(0, 0, 1), 1) = <<0, 1, 0>>      \* heading +90: the nose points east
               /\ Col(EulerMatrix(0, 1, 0), 1) = <<0, 0, -1>>     \* pitch +90: the nose points up (minus down)
               /\ Col(EulerMatrix(1, 0, 0), 2) = <<0, 0, 1>>      \* roll +90: the right wing points down
\* away from pitch +-90 the angles come back; a pitch of 180 is reported in the principal range (pitch 0, roll and heading turned by 180)
RoundTrip == (kind = "rph" /\ CQ(b) # 0) =>
               LET g == RphOf(M) IN
                 /\ EulerMatrix(g[1], g[2], g[3]) = M
                 /\ (b = 0 => g = <<a, 0, c>>)
                 /\ (b = 2 => g = <<(a + 2) % 4, 0, (c + 2) % 4>>)
EulerIsAxisProduct == kind = "rph" => M = MMul(ExpAxis(3, c), MMul(ExpAxis(2, b), ExpAxis(1, a)))
ExpAxisGroupLaw == kind = "axis" => \A q \in 0..3 : MMul(ExpAxis(a, b), ExpAxis(a, q)) = ExpAxis(a, (b + q) % 4)
\* right-handed sense: (u x R u) . axis > 0 for a vector u off the axis
Unit(k) == [i \in 1..3 |-> IF i = k THEN 1 ELSE 0]
Sense == /\ kind = "diag" => Dot(Cross(Unit(1), MVec(M, Unit(1))), <<a, b, c>>) > 0
         /\ (kind = "axis" /\ b = 1) => Dot(Cross(Unit((a % 3) + 1), MVec(M, Unit((a % 3) + 1))), Unit(a)) > 0
\* relative rotations of the cube group turn by 0, 90, 120 or 180 degrees (trace 3, 1, 0, -1): the shortest arc is unique unless 180
PairAngles == kind = "pair" => Trace3(M) \in {3, 1, 0, -1} /\ (Trace3(M) = 3 <=> a = b)
DiagCubed == kind = "diag" => MMul(M, MMul(M, M)) = I3 /\ MVec(M, <<a, b, c>>) = <<a, b, c>>    \* the axis is fixed
=============================================================================
