--------------------------- MODULE FeedforwardLoop ---------------------------
(***************************************************************************)
(* The main loop of pyins.filters.run_feedforward_filter                   *)
(* (filters.py:453-534) over abstract time (ticks / ranks, see             *)
(* FeedbackLoop).  1-based row cursor `index`.                             *)
(*                                                                         *)
(*   ProcessMeas - one measurement epoch inside [times[index],             *)
(*                 times[index+1]): interpolate the trajectory, query      *)
(*                 every sensor, correct; innovations are stamped with     *)
(*                 the ROW time (what the code does).                      *)
(*   Advance     - emit result row, choose next row by                     *)
(*                 min(t + step, next epoch), at-least-one-row guard, sum  *)
(*                 the increments of (t, t'] , propagate x and P.          *)
(*   Finish      - loop exit.                                              *)
(***************************************************************************)
EXTENDS Integers, Sequences, FiniteSets, SequencesExt, FiniteSetsExt

CONSTANT Shipped

VARIABLES cfg,      \* [times, meas, hz, inct]
          index, mi, didMeas, done,
          resT,     \* times_result: index of every returned table
          used,     \* per sensor: stamps of the samples consumed so far (query -> correct)
          innovT,   \* per sensor: stamps the innovation rows carry (the row time)
          batches,  \* per Advance: set of increment stamps summed
          covT,     \* time x and P refer to
          alphas,   \* per ProcessMeas: <<row time, epoch, next row time>> of the interpolation
          bad

vars == <<cfg, index, mi, didMeas, done, resT, used, innovT, batches, covT, alphas, bad>>

Inf == 1000000
Min2(a, b) == IF a < b THEN a ELSE b
Max2(a, b) == IF a > b THEN a ELSE b
Sorted(S) == SetToSortSeq(S, LAMBDA a, b : a < b)
StrictInc(s) == \A i \in 1..(Len(s) - 1) : s[i] < s[i + 1]
NonDec(s) == \A i \in 1..(Len(s) - 1) : s[i] <= s[i + 1]

Times == cfg.times
N == Len(Times)
NS == Len(cfg.meas)
Meas(s) == cfg.meas[s]
Start == Times[1]
End == Times[N]
AllMeas == UNION {Meas(s) : s \in 1..NS}
Mts == Sorted({t \in AllMeas : t >= Start /\ t <= End}) \o <<Inf>>
LastLE(x) == Cardinality({k \in 1..N : Times[k] <= x})      \* searchsorted(times, x, 'right'), as a 1-based row

InitLoop ==
  /\ index = 1 /\ mi = 1 /\ didMeas = FALSE /\ done = FALSE
  /\ resT = <<>> /\ used = [s \in 1..NS |-> <<>>] /\ innovT = [s \in 1..NS |-> <<>>]
  /\ batches = <<>> /\ covT = Start /\ alphas = <<>> /\ bad = {}

Running == ~done /\ index + 1 <= N
Due == Mts[mi] < Times[index + 1]
Hits(mt) == {s \in 1..NS : mt \in Meas(s)}

ProcessMeas ==
  /\ Running /\ Due /\ (Shipped => ~didMeas)
  /\ LET mt == Mts[mi] IN
       /\ used' = [s \in 1..NS |-> IF s \in Hits(mt) THEN Append(used[s], mt) ELSE used[s]]
       /\ innovT' = [s \in 1..NS |-> IF s \in Hits(mt) THEN Append(innovT[s], Times[index]) ELSE innovT[s]]
       /\ alphas' = Append(alphas, <<Times[index], mt, Times[index + 1]>>)
       /\ bad' = bad \cup (IF mt < Times[index] THEN {"backward_extrapolation"} ELSE {})
                     \cup (IF covT # Times[index] THEN {"state_not_at_row"} ELSE {})
  /\ mi' = mi + 1 /\ didMeas' = TRUE
  /\ UNCHANGED <<cfg, index, done, resT, batches, covT>>

Advance ==
  /\ Running /\ (~Due \/ (Shipped /\ didMeas))
  /\ LET t   == Times[index]
         nt  == Min2(cfg.hz[index], Mts[mi])
         n0  == LastLE(nt)
         ni  == IF ~Shipped /\ n0 = index THEN n0 + 1 ELSE n0           \* at-least-one-row guard (F3)
         ni2 == IF ni < 1 THEN 1 ELSE ni
     IN /\ resT' = Append(resT, t)
        /\ index' = ni2
        /\ batches' = Append(batches, {u \in cfg.inct : u > t /\ u <= Times[ni2]})
        /\ covT' = Times[ni2]
        /\ bad' = bad \cup (IF Times[ni2] = t THEN {"zero_interval"} ELSE {})
                      \cup (IF ni2 < index THEN {"cursor_backwards"} ELSE {})
  /\ didMeas' = FALSE
  /\ UNCHANGED <<cfg, mi, done, used, innovT, alphas>>

Finish ==
  /\ ~done /\ ~(index + 1 <= N)
  /\ done' = TRUE
  /\ UNCHANGED <<cfg, index, mi, didMeas, resT, used, innovT, batches, covT, alphas, bad>>

NextLoop == ProcessMeas \/ Advance \/ Finish

(***************************************************************************)
(* Contract (C10)                                                          *)
(***************************************************************************)
InSpan(s) == Sorted({t \in Meas(s) : t >= Start /\ t < End})
RowOf(t) == CHOOSE k \in 1..N : Times[k] = t

ResStrict == /\ StrictInc(resT)
             /\ Range(resT) \subseteq Range(Times)
             /\ (resT # <<>> => resT[1] = Start)
\* never further than the larger of the time step and the local sampling gap
StepBound == \A k \in 1..(Len(resT) - 1) :
                LET r == RowOf(resT[k]) IN resT[k + 1] <= Max2(cfg.hz[r], Times[r + 1])
LastStepBound == (resT # <<>> /\ index <= N) =>
                LET r == RowOf(resT[Len(resT)]) IN Times[index] <= Max2(cfg.hz[r], Times[Min2(r + 1, N)])
UsedPrefix == \A s \in 1..NS : IsPrefix(used[s], InSpan(s))
InnovStamps == \A s \in 1..NS : /\ Len(innovT[s]) = Len(used[s])
                                /\ NonDec(innovT[s])
                                /\ \A k \in 1..Len(used[s]) : innovT[s][k] <= used[s][k]
                                /\ Range(innovT[s]) \subseteq Range(resT) \cup {Times[index]}
IndexOk == index >= 1 /\ index <= N
NothingBad == bad = {}
\* the summed increment batches are disjoint, in order, and tile (start, current row]
BatchesPartition ==
   /\ \A i, j \in 1..Len(batches) : i # j => batches[i] \cap batches[j] = {}
   /\ UNION {batches[i] : i \in 1..Len(batches)} = {u \in cfg.inct : u > Start /\ u <= Times[index]}
Interpolates == \A k \in 1..Len(alphas) : alphas[k][1] <= alphas[k][2] /\ alphas[k][2] < alphas[k][3]
IterBound == Len(resT) <= N - 1 /\ mi <= Len(Mts)
AtDone == done =>
   /\ \A s \in 1..NS : used[s] = InSpan(s)
   /\ index = N
   /\ resT # <<>>

\* with Progress and IterBound this is termination without a liveness check: no stuck state before done
NotStuck == ~done => ENABLED NextLoop

Progress == [][ /\ (Advance => index' > index)
                /\ (ProcessMeas => mi' > mi) ]_vars
=============================================================================
