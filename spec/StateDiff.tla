--------------------------- MODULE StateDiff ---------------------------
(***************************************************************************)
(* pyins.transform.compute_state_difference / resample_state               *)
(* (transform.py:294-383) and util.to_180_range (util.py:162-175) as       *)
(* exact integer algebra over pairs of time-indexed tables.                *)
(*                                                                         *)
(* A table is [idx, sig, cols]: a strictly increasing sequence of ticks,   *)
(* a signal family and an ordered list of column names.  Column values at  *)
(* tick t are integers Val(sig, col, t); interpolated values are rationals *)
(* whose denominators divide the gap between two knots, so with MaxT <= 6  *)
(* everything multiplied by K = 60 is an integer (A4 without fractions).   *)
(* Heading signals are linear ramps through +-180 with roll = pitch = 0 and*)
(* less than 180 degrees between consecutive knots, for which SLERP is     *)
(* exactly linear interpolation of the unwrapped ramp.                     *)
(*                                                                         *)
(* TLC enumerates ALL ordered pairs of tables within the bound (equal,     *)
(* nested, sub-sampled, offset, different rates, partially overlapping,    *)
(* disjoint spans), evaluates the algebraic laws of C18 on each and prints *)
(* the exact expectation for the harness to compare the real functions     *)
(* with (leg R).                                                           *)
(***************************************************************************)
EXTENDS Integers, Sequences, FiniteSets, SequencesExt, FiniteSetsExt, TLC

CONSTANTS MaxT, SigA, SigB, Emit      \* the signal families of the two tables are fixed per TLC process (slicing)

K == 60
VARIABLES a, b, d, r, emitted        \* d = difference(a, b), r = difference(b, a), computed once per pair
vars == <<a, b, d, r, emitted>>

Sorted(S) == SetToSortSeq(S, LAMBDA x, y : x < y)
Min2(x, y) == IF x < y THEN x ELSE y
Abs(x) == IF x < 0 THEN -x ELSE x
StrictInc(s) == \A i \in 1..(Len(s) - 1) : s[i] < s[i + 1]

Universe == <<"lat", "lon", "alt", "VN", "foo", "roll", "pitch", "heading">>
ColSets == { Universe,
             <<"lat", "lon", "alt", "VN", "roll", "pitch", "heading">>,
             <<"foo", "VN">>,
             <<"heading", "pitch", "roll", "foo", "VN", "alt", "lon", "lat">> }
Rph == {"roll", "pitch", "heading"}
Lla == {"lat", "lon", "alt"}

\* integer signal values (lat/lon: offset in milli-degrees from the base point 50N 30E the harness adds; everything else
\* in its own unit); heading is the UNWRAPPED ramp
Val(sig, col, t) ==
  CASE col = "VN"      -> (IF sig = 1 THEN 3 * t + 1 ELSE IF sig = 2 THEN t * t ELSE 7 - 2 * t)
    [] col = "foo"     -> (IF sig = 1 THEN t * t ELSE IF sig = 2 THEN 2 * t ELSE t * t * t)
    [] col = "alt"     -> (IF sig = 1 THEN 100 + 2 * t ELSE IF sig = 2 THEN 100 - t * t ELSE 250)
    [] col = "lat"     -> (IF sig = 1 THEN 10 * t ELSE IF sig = 2 THEN t * t ELSE -7)
    [] col = "lon"     -> (IF sig = 1 THEN -20 * t ELSE IF sig = 2 THEN 40 ELSE 5)
    [] col = "roll"    -> 0
    [] col = "pitch"   -> 0
    [] col = "heading" -> (IF sig = 1 THEN 170 + 10 * t ELSE IF sig = 2 THEN -170 - 10 * t ELSE IF sig = 3 THEN 10 ELSE -170)

\* congruent value in (-180, 180], in units of 1/K degree
Wrap180(x) == LET m == x % (360 * K) IN IF m > 180 * K THEN m - 360 * K ELSE m

Gaps(idx) == [k \in 1..(Len(idx) - 1) |-> idx[k + 1] - idx[k]]
\* twice the median (np.median averages the two middle elements of an even-length list)
Median2(s) == LET srt == SortSeq(s, LAMBDA x, y : x < y)  len == Len(s)
              IN IF len % 2 = 1 THEN 2 * srt[(len + 1) \div 2] ELSE srt[len \div 2] + srt[len \div 2 + 1]
Swap(x, y) == Median2(Gaps(x.idx)) < Median2(Gaps(y.idx))          \* transform.py:352

First(x, y) == IF Swap(x, y) THEN y ELSE x
Second(x, y) == IF Swap(x, y) THEN x ELSE y
Sign(x, y) == IF Swap(x, y) THEN -1 ELSE 1

InSpan(t, tab) == t >= tab.idx[1] /\ t <= tab.idx[Len(tab.idx)]
\* K times the piecewise-linear interpolant of column col of tab at tick t (t inside the span)
InterpK(tab, col, t) ==
  IF \E k \in 1..Len(tab.idx) : tab.idx[k] = t THEN K * Val(tab.sig, col, t)
  ELSE LET k  == CHOOSE j \in 1..(Len(tab.idx) - 1) : tab.idx[j] < t /\ t < tab.idx[j + 1]
           t0 == tab.idx[k]  t1 == tab.idx[k + 1]
           v0 == Val(tab.sig, col, t0)  v1 == Val(tab.sig, col, t1)
       IN K * v0 + ((v1 - v0) * (t - t0) * K) \div (t1 - t0)
IsKnot(tab, t) == \E k \in 1..Len(tab.idx) : tab.idx[k] = t

\* result of compute_state_difference(x, y)
DiffIndex(x, y) == SelectSeq(First(x, y).idx, LAMBDA t : InSpan(t, Second(x, y)))
CommonCols(x, y) == SelectSeq(First(x, y).cols, LAMBDA c : \E k \in 1..Len(Second(x, y).cols) : Second(x, y).cols[k] = c)
HasAll(cols, S) == S \subseteq {cols[k] : k \in 1..Len(cols)}
PartialRph(cols) == LET C == {cols[k] : k \in 1..Len(cols)} IN C \cap Rph # {} /\ ~(Rph \subseteq C)
\* K * difference in the column's own unit (degrees for lat/lon - metres are the harness' conversion; wrapped for angles)
DiffK(x, y, col, t) ==
  LET raw == Sign(x, y) * (K * Val(First(x, y).sig, col, t) - InterpK(Second(x, y), col, t))
  IN IF col \in Rph /\ HasAll(CommonCols(x, y), Rph) THEN Wrap180(raw) ELSE raw

(***************************************************************************)
(* Enumeration                                                             *)
(***************************************************************************)
\* the whole result of compute_state_difference(x, y), evaluated once per pair
Result(x, y) ==
  LET idx == DiffIndex(x, y)  cc == CommonCols(x, y)  fst == First(x, y)  snd == Second(x, y)  sg == Sign(x, y)
      wrap == HasAll(cc, Rph)
  IN [index |-> idx, cols |-> cc, sign |-> sg, swapped |-> Swap(x, y),
      fidx |-> fst.idx, sidx |-> snd.idx,
      \* per result stamp and column: <<K * first value, K * interpolated second value, K * difference>>
      vals |-> [k \in 1..Len(idx) |-> [c \in 1..Len(cc) |->
                  LET f == K * Val(fst.sig, cc[c], idx[k])
                      g == InterpK(snd, cc[c], idx[k])
                      raw == sg * (f - g)
                  IN <<f, g, IF cc[c] \in Rph /\ wrap THEN Wrap180(raw) ELSE raw>>]]]

Grids == {Sorted(S) : S \in {X \in SUBSET (0..MaxT) : Cardinality(X) >= 2}}
\* column-set pairs: equal full sets, a subset on either side, no attitude/position columns, a permuted order
ColPairs == { <<Universe, Universe>>,
              <<Universe, <<"lat", "lon", "alt", "VN", "roll", "pitch", "heading">> >>,
              << <<"foo", "VN">>, Universe>>,
              << <<"heading", "pitch", "roll", "foo", "VN", "alt", "lon", "lat">>, Universe>>,
              << <<"VN", "heading">>, Universe>> }          \* a strict subset of the attitude columns (known finding F8)
Init == /\ \E ga \in Grids, gb \in Grids, cp \in ColPairs :
             /\ a = [idx |-> ga, sig |-> SigA, cols |-> cp[1]]
             /\ b = [idx |-> gb, sig |-> SigB, cols |-> cp[2]]
        /\ d = Result(a, b)
        /\ r = Result(b, a)
        /\ emitted = FALSE

(***************************************************************************)
(* The algebra (C18)                                                       *)
(***************************************************************************)
NK == Len(d.index)
NC == Len(d.cols)
DVal(k, c) == d.vals[k][c][3]
AllZero == \A k \in 1..NK : \A c \in 1..NC : DVal(k, c) = 0
SameTable == a.idx = b.idx /\ a.sig = b.sig
SetOf(s) == {s[k] : k \in 1..Len(s)}
Nested == a.sig = b.sig /\ (SetOf(a.idx) \subseteq SetOf(b.idx) \/ SetOf(b.idx) \subseteq SetOf(a.idx))

\* a table against itself: exactly zero, on its own index
SelfZero == SameTable => (AllZero /\ d.index = a.idx)
\* a table against a sub-sampling of itself: zero at every result stamp that is a knot of the interpolated table ...
ZeroAtKnots == Nested => \A k \in 1..NK : (d.index[k] \in SetOf(d.sidx)) => \A c \in 1..NC : DVal(k, c) = 0
\* ... and the interpolated table should be the denser one (the superset), so that EVERY result stamp is one of its
\* knots.  The median-gap ranking does not guarantee that (known finding F9): classified, not asserted.
F9Pair == Nested /\ ~(SetOf(d.fidx) \subseteq SetOf(d.sidx))
SubsampleZero == (Nested /\ ~F9Pair) => AllZero
\* the result is indexed by the sparser table's stamps inside the other's span
IndexRule == /\ \A k \in 1..NK : d.index[k] >= d.sidx[1] /\ d.index[k] <= d.sidx[Len(d.sidx)] /\ d.index[k] \in SetOf(d.fidx)
             /\ StrictInc(d.index)
             /\ (Median2(Gaps(a.idx)) # Median2(Gaps(b.idx)) => Median2(Gaps(d.sidx)) < Median2(Gaps(d.fidx)))
             /\ d.cols = SelectSeq(IF d.swapped THEN b.cols ELSE a.cols, LAMBDA c : c \in SetOf(a.cols) \cap SetOf(b.cols))
\* antisymmetry whichever argument is denser (or when the grids are equal); angles modulo 360 (+-180 are the same angle)
Ranked == Median2(Gaps(a.idx)) # Median2(Gaps(b.idx)) \/ a.idx = b.idx
ColIn(res, name) == CHOOSE c \in 1..Len(res.cols) : res.cols[c] = name
Antisymmetric == Ranked =>
   /\ d.index = r.index
   /\ SetOf(d.cols) = SetOf(r.cols)
   /\ \A k \in 1..NK : \A c \in 1..NC :
         LET v == DVal(k, c)  w == r.vals[k][ColIn(r, d.cols[c])][3]
         IN IF d.cols[c] \in Rph /\ HasAll(d.cols, Rph) THEN w = Wrap180(-v) ELSE w = -v
\* every angle difference lies in (-180, 180]
AngleRange == HasAll(d.cols, Rph) =>
   \A k \in 1..NK : \A c \in 1..NC : d.cols[c] \in Rph => (DVal(k, c) > -180 * K /\ DVal(k, c) <= 180 * K)
\* resampling: original rows at original stamps, linear in between, column order kept (InterpK is total on the span)
ResampleAtKnots == \A k \in 1..Len(a.idx) : \A c \in 1..Len(a.cols) : InterpK(a, a.cols[c], a.idx[k]) = K * Val(a.sig, a.cols[c], a.idx[k])
ResampleLinear == \A t \in 0..MaxT : InSpan(t, a) => \A c \in 1..Len(a.cols) :
   \/ IsKnot(a, t)
   \/ LET k == CHOOSE j \in 1..(Len(a.idx) - 1) : a.idx[j] < t /\ t < a.idx[j + 1]
      IN (InterpK(a, a.cols[c], t) - K * Val(a.sig, a.cols[c], a.idx[k])) * (a.idx[k + 1] - a.idx[k])
           = K * (Val(a.sig, a.cols[c], a.idx[k + 1]) - Val(a.sig, a.cols[c], a.idx[k])) * (t - a.idx[k])
\* everything the harness needs to build the two real tables and to judge the real functions (no formula is repeated
\* in Python): table values at the knots, the interpolant of `a` at every tick of its span (resample_state), the result
TabVals(x) == [k \in 1..Len(x.idx) |-> [c \in 1..Len(x.cols) |-> Val(x.sig, x.cols[c], x.idx[k])]]
Resampled(x) == [t \in 0..MaxT |-> IF InSpan(t, x) THEN [c \in 1..Len(x.cols) |-> InterpK(x, x.cols[c], t)] ELSE <<>>]
EmitAct == Emit /\ ~emitted
           /\ PrintT(<<a.idx, a.sig, a.cols, TabVals(a), b.idx, b.sig, b.cols, TabVals(b),
                        d.sign, d.index, d.cols, d.vals, Resampled(a),
                        SameTable, Nested, F9Pair, Ranked, r.index>>)
           /\ emitted' = TRUE /\ UNCHANGED <<a, b, d, r>>
Next == EmitAct
Spec == Init /\ [][Next]_vars


\* angle reduction: congruent, in range, idempotent - for all integers and half-integers in +-1080 degrees
WrapCongruentLaw == \A x \in (-2160)..2160 :
   LET y == x * (K \div 2)  w == Wrap180(y)
   IN /\ (w - y) % (360 * K) = 0 /\ w > -180 * K /\ w <= 180 * K /\ Wrap180(w) = w
ASSUME WrapCongruentLaw
=============================================================================
