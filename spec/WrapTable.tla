--------------------------- MODULE WrapTable ---------------------------
(* The angle-reduction table of StateDiff.tla (Wrap180) for all integers and half-integers in +-1080 degrees, printed once
   for the harness to compare util.to_180_range with in every argument form. Entries: <<x in half-degrees, K * wrapped value>>. *)
EXTENDS Integers, Sequences, TLC
K == 60
Wrap180(x) == LET m == x % (360 * K) IN IF m > 180 * K THEN m - 360 * K ELSE m
VARIABLE done
Init == done = FALSE
Next == ~done /\ PrintT(<<"WRAP", [i \in 1..4321 |-> <<i - 2161, Wrap180((i - 2161) * (K \div 2))>>]>>) /\ done' = TRUE
Spec == Init /\ [][Next]_done
=============================================================================
