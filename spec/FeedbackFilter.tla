--------------------------- MODULE FeedbackFilter ---------------------------
(***************************************************************************)
(* Model-checking instance of FeedbackLoop on the integer tick grid:       *)
(* start = 0; IMU epochs = any non-empty subset of 1..MaxTick (a missing   *)
(* tick is a data gap, and a stamp on a missing tick lies between two IMU  *)
(* samples); up to MaxMeas distinct measurement stamps in -1..MaxTick+1,   *)
(* each assigned to a non-empty set of sensors (coincident with IMU        *)
(* samples, between them, several inside one interval, shared between      *)
(* sensors, before the start, at the start, at the end, after the end,     *)
(* none at all); time_step from Steps (below, equal to, above the IMU      *)
(* interval, above the whole span).                                        *)
(***************************************************************************)
EXTENDS FeedbackLoop, TLC

CONSTANTS NSensors, MaxTick, MaxMeas, Steps

ImuTicks == 1..MaxTick
Stamps == (-1)..(MaxTick + 1)

Init ==
  /\ \E S \in (SUBSET ImuTicks) \ {{}} :
     \E St \in {X \in SUBSET Stamps : Cardinality(X) <= MaxMeas} :
     \E f \in [St -> (SUBSET (1..NSensors)) \ {{}}] :
     \E step \in Steps :
        cfg = [start |-> 0,
               imu   |-> Sorted(S),
               meas  |-> [s \in 1..NSensors |-> {t \in St : s \in f[t]}],
               hz    |-> [k \in 1..(Cardinality(S) + 1) |-> (<<0>> \o Sorted(S))[k] + step]]
  /\ InitLoop

Spec == Init /\ [][NextLoop]_vars /\ WF_vars(NextLoop)

Terminates == <>done

\* the loop refines the cursor abstraction whose termination Apalache proves for ALL sizes (LoopTermination.tla)
Abs == INSTANCE LoopTermination WITH Guard <- TRUE, idx <- ii, mi <- mi, nrows <- Len(Imu), nmeas <- Len(Mts) - 1, fin <- done
RefinesAbstraction == Abs!ASpec

\* ... and the counting abstraction whose exactly-once invariants Apalache proves for ALL sizes (ExactlyOnce.tla)
InSpanEpochs == {k \in 1..(Len(Mts) - 1) : Mts[k] < End}
MIn == Cardinality(InSpanEpochs)
Behind == Cardinality({k \in InSpanEpochs : Mts[k] < T})
DueCnt == IF ii < Len(Imu) THEN Cardinality({k \in InSpanEpochs : Mts[k] < Imu[ii + 1]}) ELSE MIn
Once == INSTANCE ExactlyOnce WITH Inner <- ~Shipped, i <- ii, mi <- mi, n <- Len(Imu), m <- MIn, b <- Behind, d <- DueCnt, fin <- done
RefinesExactlyOnce == Once!ESpec
=============================================================================
