--------------------------- MODULE ExactlyOnce ---------------------------
(***************************************************************************)
(* Counting abstraction of the two filter loops for the EXACTLY-ONCE       *)
(* clauses of C09 / C10 (filters.py:288-347, 484-532): what is kept of a   *)
(* schedule is                                                             *)
(*   n   number of rows to consume (IMU samples / trajectory rows - 1)      *)
(*   m   number of merged measurement epochs inside the span [start, end)  *)
(*   i   rows consumed;  mi  epoch cursor (epochs 1 .. mi - 1 were used,   *)
(*       each once and in time order, because the cursor moves by one)     *)
(*   b   epochs that lie BEHIND the current time (stamp < time of row i)   *)
(*   d   epochs DUE before the next row (stamp < time of row i + 1)        *)
(* Which rows an outer iteration consumes and how the epochs fall between  *)
(* the rows is left nondeterministic; what is kept is what exactly-once    *)
(* rests on:                                                               *)
(*   - an epoch is used only when it is due (EProcess needs mi <= d),      *)
(*   - with the inner `while` (Inner = TRUE) the rows are advanced only    *)
(*     when no epoch is due, and then never past the next unused epoch, so *)
(*     that no epoch is left behind (b' <= mi - 1).                        *)
(* TLC checks that FeedbackLoop and FeedforwardLoop refine this module     *)
(* (bounded); Apalache proves EIndInv inductive for ALL n, m               *)
(* (ExactlyOnceApa.tla), hence NoneLeftBehind, OnlyDue and, at the end,    *)
(* AllUsedOnce: mi - 1 = m.  Inner = FALSE is the pinned loop (an `if`:    *)
(* defects F1 / F4): NoneLeftBehind is then violated.                      *)
(***************************************************************************)
EXTENDS Integers

CONSTANT Inner
VARIABLES i, mi, b, d, n, m, fin
evars == <<i, mi, b, d, n, m, fin>>

Max2i(x, y) == IF x > y THEN x ELSE y

EInit == /\ n \in Nat /\ n >= 1 /\ m \in Nat
         /\ i = 0 /\ mi = 1 /\ b = 0 /\ fin = FALSE
         /\ d \in 0..m /\ (n = 1 => d = m)
EProcess == /\ ~fin /\ i < n /\ mi <= d
            /\ mi' = mi + 1 /\ UNCHANGED <<i, b, d, n, m, fin>>
EAdvance == /\ ~fin /\ i < n /\ (Inner => mi > d)
            /\ \E j \in 1..n : \E b2 \in 0..m : \E d2 \in 0..m :
                  /\ j >= i + 1
                  /\ b2 >= d /\ b2 <= Max2i(mi - 1, d)        \* rows are never advanced past the next unused epoch (one row at least)
                  /\ d2 >= b2 /\ d2 >= d
                  /\ (j = n => b2 = m) /\ (j + 1 >= n => d2 = m)
                  /\ i' = j /\ b' = b2 /\ d' = d2
            /\ UNCHANGED <<mi, n, m, fin>>
EFinish == /\ ~fin /\ i >= n /\ fin' = TRUE /\ UNCHANGED <<i, mi, b, d, n, m>>
ENext == EProcess \/ EAdvance \/ EFinish
ESpec == EInit /\ [][ENext]_evars

EIndInv == /\ n \in Nat /\ m \in Nat /\ i \in Nat /\ mi \in Nat /\ b \in Nat /\ d \in Nat /\ fin \in BOOLEAN
           /\ n >= 1 /\ i <= n /\ mi >= 1
           /\ b <= mi - 1 /\ mi - 1 <= d /\ d <= m
           /\ (i = n => b = m) /\ (i + 1 >= n => d = m)
           /\ (fin => i = n)
\* every epoch whose stamp lies before the current time has been used
NoneLeftBehind == b <= mi - 1
\* no epoch is used before the interval that contains it
OnlyDue == mi - 1 <= d /\ d <= m
\* at the end every in-span epoch has been used (once: the cursor moves by one; in time order: the epochs are sorted)
AllUsedOnce == fin => mi - 1 = m
=============================================================================
