--------------------------- MODULE LoopTermination ---------------------------
(***************************************************************************)
(* Cursor abstraction of the two filter loops (filters.py:288-347,         *)
(* 484-532): a row cursor idx over nrows rows (IMU samples / trajectory    *)
(* rows) and a cursor mi into the merged in-span measurement epochs        *)
(* (nmeas of them, followed by the +inf sentinel).  Which epoch is "due"   *)
(* and where searchsorted lands are left nondeterministic; what is kept is *)
(* exactly what termination rests on:                                      *)
(*   - the sentinel is never due (ProcessMeas needs mi <= nmeas),          *)
(*   - the row cursor never moves backwards, and with the at-least-one     *)
(*     guard (Guard = TRUE) an outer iteration advances it by >= 1.        *)
(* TLC checks that FeedbackLoop and FeedforwardLoop refine this module     *)
(* (bounded); Apalache proves IndInv inductive and the measure Mu strictly *)
(* decreasing for ALL nrows, nmeas (LoopTerminationApa.tla), i.e. at most  *)
(* 2 nrows + nmeas + 1 loop steps whatever the schedule.  Guard = FALSE is *)
(* the pinned feedforward loop (defect F3): Decreases is then violated.    *)
(***************************************************************************)
EXTENDS Integers

CONSTANT Guard
VARIABLES idx, mi, nrows, nmeas, fin
avars == <<idx, mi, nrows, nmeas, fin>>

AInit == /\ nrows \in Nat /\ nrows >= 1 /\ nmeas \in Nat
         /\ idx = 0 /\ mi = 1 /\ fin = FALSE
AProcessMeas == /\ ~fin /\ idx < nrows /\ mi <= nmeas
                /\ mi' = mi + 1 /\ UNCHANGED <<idx, nrows, nmeas, fin>>
AAdvance == /\ ~fin /\ idx < nrows
            /\ \E j \in 0..nrows : /\ j >= (IF Guard THEN idx + 1 ELSE idx)
                                   /\ j <= nrows
                                   /\ idx' = j
            /\ UNCHANGED <<mi, nrows, nmeas, fin>>
AFinish == /\ ~fin /\ idx >= nrows /\ fin' = TRUE /\ UNCHANGED <<idx, mi, nrows, nmeas>>
ANext == AProcessMeas \/ AAdvance \/ AFinish
ASpec == AInit /\ [][ANext]_avars

Mu == 2 * (nrows - idx) + (nmeas + 1 - mi) + (IF fin THEN 0 ELSE 1)
IndInv == /\ nrows \in Nat /\ nmeas \in Nat /\ idx \in Nat /\ mi \in Nat /\ fin \in BOOLEAN
          /\ nrows >= 1 /\ idx <= nrows /\ mi >= 1 /\ mi <= nmeas + 1
          /\ (fin => idx = nrows)
\* action property: every step strictly decreases the non-negative measure
Decreases == ANext => (Mu' < Mu /\ Mu' >= 0)
=============================================================================
