#!/bin/bash
# try_seeded.sh <worktree name under /tmp/mut> <check id> [<check id> ...]: run checks against a seeded worktree (evidence redirected)
name=$1; shift
export VERIF_EVIDENCE_DIR=/tmp/ev_scratch_$name
mkdir -p $VERIF_EVIDENCE_DIR
cd /verif
for c in "$@"; do
  out=$(VERIF_REPO=/tmp/mut/$name timeout 2400 ./check $c --tier quick 2>&1 | grep -v "^Parsing\|^Semantic\|^KNOWN\|^MODEL" | grep "^OK\|^VIOLATION\|detail\|^MACHINERY" | head -2 | cut -c1-400)
  echo "[$name vs $c] $out"
done
