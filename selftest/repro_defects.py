"""Reproduce the defects F1-F5, F7, F10-F17 of DESIGN.md s7 against the pyins in VERIF_REPO (default /repo).
Prints one line per defect: `F<k> PRESENT|ABSENT <detail>`.  Not a registered check; used to
document the fix commits and as a regression aid."""
import os, sys, signal
sys.path.insert(0, os.environ.get("VERIF_REPO", "/repo"))
import numpy as np, pandas as pd
import pyins
from pyins import filters, strapdown, transform, sim, measurements as M
from pyins.util import TRAJECTORY_COLS

def pva0(t=0.0, VD=0.0, alt=100.0):
    return pd.Series({'lat': 50.0, 'lon': 30.0, 'alt': alt, 'VN': 1.0, 'VE': 2.0, 'VD': VD,
                      'roll': 1.0, 'pitch': -2.0, 'heading': 40.0}, name=t)

def incs(times, t0=0.0):
    times = np.asarray(times, float)
    dt = np.diff(np.hstack([t0, times]))
    df = pd.DataFrame({'dt': dt, 'theta_x': 1e-5 * dt, 'theta_y': 0.0, 'theta_z': 2e-5 * dt,
                       'dv_x': 0.01 * dt, 'dv_y': 0.0, 'dv_z': -9.81 * dt}, index=times)
    return df

def posmeas(stamps):
    return pd.DataFrame({'lat': 50.0, 'lon': 30.0, 'alt': 100.0}, index=np.asarray(stamps, float))
def velmeas(stamps):
    return pd.DataFrame({'VN': 1.0, 'VE': 2.0, 'VD': 0.0}, index=np.asarray(stamps, float))

class Timeout(Exception): pass
def _alarm(*a): raise Timeout()
signal.signal(signal.SIGALRM, _alarm)

def run(label, f):
    signal.alarm(20)
    try:
        r = f()
    except Timeout:
        r = (True, "did not return in 20 s")
    except Exception as e:
        r = (True, f"{type(e).__name__}: {e}")
    finally:
        signal.alarm(0)
    print(label, "PRESENT" if r[0] else "ABSENT", r[1]); sys.stdout.flush()

def fb(meas, imu=(1, 2, 3, 4, 5), step=10.0, **kw):
    return filters.run_feedback_filter(pva0(), 1.0, 0.1, 0.1, 1.0, incs(imu), measurements=meas,
                                       time_step=step, **kw)

def f1():
    out = []
    for m in (None, []):
        try: fb(m)
        except Exception as e: out.append(f"feedback({m!r}): {type(e).__name__}")
        try:
            t = traj(np.arange(5.0))
            filters.run_feedforward_filter(t, t, 1.0, 0.1, 0.1, 1.0, measurements=m, time_step=1.0)
        except Exception as e: out.append(f"feedforward({m!r}): {type(e).__name__}")
    return bool(out), "; ".join(out)

def f2():
    r = fb([M.Position(posmeas([4.25]), 1.0), M.NedVelocity(velmeas([4.5]), 0.1)])
    n = len(r.innovations['NedVelocity'])
    return n != 1, f"NedVelocity innovation rows = {n} (expected 1)"

def f2b():
    r = fb([M.Position(posmeas([2.25, 2.5, 2.75]), 1.0)])
    idx = list(r.trajectory.index)
    ok = idx == [0, 1, 2, 3, 4, 5] and list(r.innovations['Position'].index) == [2.25, 2.5, 2.75]
    return not ok, f"trajectory index {idx}, innovations {list(r.innovations['Position'].index)}"

def traj(times):
    times = np.asarray(times, float)
    df = pd.DataFrame(np.tile(pva0()[TRAJECTORY_COLS].values, (len(times), 1)), index=times, columns=TRAJECTORY_COLS)
    df.index.name = 'time'
    return df

def f3():
    t = traj([0, 1, 2, 5, 6])
    r = filters.run_feedforward_filter(t, t, 1.0, 0.1, 0.1, 1.0, measurements=[M.Position(posmeas([1.0]), 1.0)], time_step=1.0)
    return False, f"returned index {list(r.trajectory.index)}"

def f3b():
    t = traj(np.arange(0, 3, .1))
    r = filters.run_feedforward_filter(t, t, 1.0, 0.1, 0.1, 1.0, measurements=[M.Position(posmeas([1.0]), 1.0)])
    return False, f"returned {len(r.trajectory)} rows"

def f4():
    t = traj([0, 2, 4, 6])
    r = filters.run_feedforward_filter(t, t, 1.0, 0.1, 0.1, 1.0, measurements=[M.Position(posmeas([2.5, 3.0, 3.5]), 1.0)], time_step=10.0)
    idx = list(r.trajectory.index)
    return any(b <= a for a, b in zip(idx, idx[1:])), f"result index {idx}"

def f5():
    it = strapdown.Integrator(pva0(), with_altitude=False)
    it.set_pva(pva0(VD=4.0, alt=200.0))
    p = it.predict(incs([1.0]).iloc[0])
    return p.alt != 200.0 or p.VD != 0.0, f"alt after predict = {p.alt!r} (expected 200.0), VD = {p.VD!r}"

def f7():
    a = pd.DataFrame({'roll': 0.0, 'pitch': 0.0, 'heading': [10.0, 10.0, 10.0]}, index=[0.0, 1.0, 2.0])
    b = pd.DataFrame({'roll': 0.0, 'pitch': 0.0, 'heading': [-170.0, -170.0]}, index=[0.0, 2.0])
    d = transform.compute_state_difference(a, b)
    h = d.heading.values
    return bool((h <= -180).any()), f"heading difference {h.tolist()}"

def f10():
    t = np.arange(0, 1, 0.1)
    lla = np.tile([50.0, 30.0, 0.0], (len(t), 1)); rph = np.zeros((len(t), 3))
    sim.generate_imu(list(t), lla, rph)
    return False, "list accepted"

def f11():
    it = strapdown.Integrator(pva0())
    p = pva0()[['roll', 'pitch', 'heading', 'VN', 'VE', 'VD', 'lat', 'lon', 'alt']]
    it.set_pva(p)
    g = it.get_pva()
    return g.lat != 50.0, f"get_pva().lat = {g.lat!r} (expected 50.0), roll = {g.roll!r}"

def f12():
    from pyins import kalman
    rng = np.random.RandomState(3)
    F = rng.randn(12, 12) - 5.2 * np.eye(12)
    B = rng.randn(12, 12); Q = B @ B.T
    Phi, Qd = kalman.compute_process_matrices(F, Q, 10.0)
    asym = float(np.max(np.abs(Qd - Qd.T)) / np.max(np.abs(Qd)))
    return asym > 1e-9, "relative asymmetry of Qd = %.3g" % asym

def f13():
    from pyins import error_model
    em = error_model.InsErrorModel(with_altitude=False)
    p = pva0(VD=0.0)[['lat', 'lon', 'alt', 'roll', 'pitch', 'heading', 'VD', 'VE', 'VN']]
    c = em.correct_pva(p, np.zeros(em.n_states))
    bad = abs(c.VD) > 1e-9 or abs(c.roll - 1.0) > 1e-9 or abs(c.VN - 1.0) > 1e-9
    return bad, f"correct_pva(permuted labels, x=0): VD = {float(c.VD):.3g}, roll = {float(c.roll):.3g}, VN = {float(c.VN):.3g} (expected 0, 1, 1)"

def f14():
    from pyins import error_model, measurements
    import pandas as pd
    em = error_model.InsErrorModel(True)
    p0 = pva0(); p0[['VN', 'VE', 'VD', 'roll', 'pitch', 'heading']] = [3.0, -2.0, 1.0, 0.0, 0.0, 0.0]
    p = pd.concat([p0,
                   pd.Series([0.0, 0.0, 2.0], index=['rate_x', 'rate_y', 'rate_z'])]); p.name = 1.0
    data = pd.DataFrame([[3.0, -2.0, 1.0]], index=[1.0], columns=['VN', 'VE', 'VD'])
    z, H, R = measurements.NedVelocity(data, 1.0, np.array([2.0, 0.0, 0.0])).compute_matrices(1.0, p, em)
    want = np.array([[0, -1, 2], [1, 0, -3], [-2, 3, 0]], float)      # skew(v + C (rate x lever)) = skew((3, 2, 1))
    return not np.allclose(H[:, 6:9], want, atol=1e-12), f"attitude block of H = {np.round(H[:, 6:9], 6).tolist()} (dz/dphi = {want.tolist()})"

def f15():
    from pyins import kalman
    F = np.diag(np.ones(3), 1); Q = np.diag([0.0, 1.0, 0.0, 2.0]); c = 2.0 ** -60
    q1 = kalman.compute_process_matrices(F, Q, 1.0)[1]
    q2 = kalman.compute_process_matrices(F, Q * c, 1.0)[1] / c
    rel = float(np.max(np.abs(q2 - q1)) / np.max(np.abs(q1)))
    return rel > 1e-9, "Qd(2^-60 Q) / 2^-60 differs from Qd(Q) by %.3g relative" % rel

def f16():
    d = transform.compute_lla_difference([55, 37, 120], [54, 38, 100])
    return bool(abs(float(d[0]) - 111316.214) > 0.01), "compute_lla_difference([55, 37, 120], [54, 38, 100]) = %s (dtype %s)" % (np.asarray(d).tolist(), np.asarray(d).dtype)

def f17():
    r = transform.ecef_to_lla(np.array([[2927000, 2205600, 5201400]], dtype=np.int32))
    return bool(not np.isfinite(r).all() or abs(r[0, 0] - 55.012) > 0.01), "ecef_to_lla(int32 array) = %s" % r.tolist()


if __name__ == "__main__":
    which = sys.argv[1:] or ["F1", "F2", "F2b", "F3", "F3b", "F4", "F5", "F7", "F10", "F11", "F12", "F13", "F14", "F15", "F16", "F17"]
    table = dict(F1=f1, F2=f2, F2b=f2b, F3=f3, F3b=f3b, F4=f4, F5=f5, F7=f7, F10=f10, F11=f11, F12=f12, F13=f13, F14=f14, F15=f15, F16=f16, F17=f17)
    for w in which:
        run(w, table[w])
