#!/bin/bash
# confirm_seeded.sh <name> <worktree>: confirm a seeded change independently, then store it under /verif/seeded/<name>/
#   1. demo.py FAILS (exit 1) with the change, 2. PASSES (exit 0) without it, 3. the unedited test suite passes with it.
set -u
export OMP_NUM_THREADS=1 OPENBLAS_NUM_THREADS=1 MKL_NUM_THREADS=1
name=$1; wt=$2; out=/verif/seeded/$name
mkdir -p $out
cd $wt || exit 2
git diff -- pyins > $out/patch.diff
cp demo.py $out/demo.py
/venv/bin/python demo.py > $out/demo_with_change.txt 2>&1; rc_with=$?
git apply -R $out/patch.diff   # (git stash is shared between worktrees of one repository: never use it here)
/venv/bin/python demo.py > $out/demo_without_change.txt 2>&1; rc_without=$?
git apply $out/patch.diff
/venv/bin/python -m pytest -q -p no:cacheprovider --timeout=900 pyins/tests > $out/pytest_with_change.txt 2>&1
summary=$(tail -1 $out/pytest_with_change.txt)
failed=$(grep -c "^FAILED" $out/pytest_with_change.txt)
only_turntable=$(grep "^FAILED" $out/pytest_with_change.txt | grep -vc test_Turntable)
echo "name=$name demo_with_change_rc=$rc_with demo_without_change_rc=$rc_without pytest='$summary' failed_other_than_Turntable=$only_turntable" | tee $out/confirm.txt
