#!/bin/bash
# round.sh <name> <check> [<check> ...]: confirm a seeded change, then run the named checks against it (both in the background-friendly way)
n=$1; shift
/verif/selftest/confirm_seeded.sh $n /tmp/mut/$n > /tmp/mut/confirm_$n.log 2>&1
/verif/selftest/try_seeded.sh $n "$@" > /tmp/mut/try_$n.log 2>&1
