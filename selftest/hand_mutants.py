"""Sensitivity self-test (not a registered check): small hand-written changes of the kind a maintainer could make, applied one
at a time to a scratch worktree of /repo outside /repo and /verif; the check of the property each one threatens is run against
that worktree (VERIF_REPO) with its evidence redirected to a temp dir.  `expect` says whether the change violates the property
(`violation`), is behaviour-preserving / refinement-only (`quiet`: the check must NOT exit 1).
Usage: /venv/bin/python selftest/hand_mutants.py [name ...]    -> selftest/hand_mutants_results.json"""
import json, os, subprocess, sys, tempfile, time

WT = "/tmp/wt_hand"
ROOT = os.path.dirname(os.path.dirname(os.path.abspath(__file__)))

M = [
 # name, file, old, new, checks, expect
 ("fb_searchsorted_left", "pyins/filters.py", "next_increment_index = np.searchsorted(increments.index, next_time,\n                                               side='right')",
  "next_increment_index = np.searchsorted(increments.index, next_time,\n                                               side='left')", ["C09"], "quiet-or-drift"),
 ("fb_guard_removed", "pyins/filters.py", "        if next_increment_index == increments_index:\n            next_increment_index += 1\n", "", ["C09"], "violation"),
 ("fb_due_le", "pyins/filters.py", "        while measurement_times[measurement_time_index] < increment.name:", "        while measurement_times[measurement_time_index] <= increment.name:", ["C09"], "violation"),
 ("fb_span_clip_lt", "pyins/filters.py", "    end_time = increments.index[-1]\n    measurement_times = measurement_times[(measurement_times >= start_time) &",
  "    end_time = increments.index[-1]\n    measurement_times = measurement_times[(measurement_times > start_time) &", ["C09"], "violation"),
 ("fb_while_to_if", "pyins/filters.py", "        while measurement_times[measurement_time_index] < increment.name:", "        if measurement_times[measurement_time_index] < increment.name:", ["C09"], "violation"),
 ("ff_unique_dropped", "pyins/filters.py", "    measurement_times = np.sort(np.unique(measurement_times))\n\n    start_time = times[0]", "    measurement_times = np.sort(measurement_times)\n\n    start_time = times[0]", ["C10"], "violation"),
 ("ff_guard_removed", "pyins/filters.py", "        if next_index == index:\n            next_index += 1\n", "", ["C10"], "violation"),
 ("ff_searchsorted_left", "pyins/filters.py", "next_index = np.searchsorted(times, next_time, side='right') - 1", "next_index = np.searchsorted(times, next_time, side='left') - 1", ["C10"], "quiet-or-drift"),   # shorter steps only: still a valid result index
 ("int_resize_2x_only", "pyins/strapdown.py", "new_size = max(2 * size, required_size)", "new_size = 2 * size", ["C02"], "violation"),
 ("int_resize_ge", "pyins/strapdown.py", "        if required_size > size:", "        if required_size >= size:", ["C02"], "quiet-or-drift"),
 ("int_resize_exact_fit", "pyins/strapdown.py", "new_size = max(2 * size, required_size)", "new_size = required_size", ["C02"], "quiet-or-drift"),
 ("int_setpva_forgets_velocity", "pyins/strapdown.py", "        self.velocity_n[i] = pva[VEL_COLS]\n", "", ["C02"], "violation"),
 ("int_kernel_vd_keeps_previous", "pyins/_numba_integrate.py", "            velocity_n[j + 1, 2] = 0.0", "            velocity_n[j + 1, 2] = V3", ["C13"], "quiet-or-drift"),   # equivalent: the stored VD is always 0 in 2D
 ("int_kernel_vd_integrates_dv", "pyins/_numba_integrate.py", "            velocity_n[j + 1, 2] = 0.0", "            velocity_n[j + 1, 2] = V3 + dv3", ["C13"], "violation"),
 ("em_correct_pva_vd_removed", "pyins/error_model.py", "        if not self.with_altitude:\n            velocity_n[2] = pva.VD\n", "", ["C13"], "violation"),
 ("meas_position_2d_slice_removed", "pyins/measurements.py", "        H = error_model.position_error_jacobian(pva, self.imu_to_antenna_b)\n        R = self.R\n        if not error_model.with_altitude:\n            z = z[:2]\n            H = H[:2]\n            R = R[:2, :2]",
  "        H = error_model.position_error_jacobian(pva, self.imu_to_antenna_b)\n        R = self.R\n        if not error_model.with_altitude:\n            z = z[:3]\n            H = H[:3]\n            R = R[:3, :3]", ["C13"], "violation"),
 ("fb_reset_removed", "pyins/filters.py", "    integrator = strapdown.Integrator(initial_pva, with_altitude)\n    gyro_model.reset_estimates()\n    accel_model.reset_estimates()\n", "    integrator = strapdown.Integrator(initial_pva, with_altitude)\n", ["C12"], "violation"),
 ("est_update_assign", "pyins/inertial_sensor.py", "                self.bias[axis] += xi", "                self.bias[axis] = xi", ["C14"], "violation"),
 ("est_sm_name_swapped", "pyins/inertial_sensor.py", "f\"sm_{INDEX_TO_XYZ[output_axis]}{INDEX_TO_XYZ[input_axis]}\")", "f\"sm_{INDEX_TO_XYZ[input_axis]}{INDEX_TO_XYZ[output_axis]}\")", ["C14"], "violation"),
 ("est_bias_dt_dropped", "pyins/inertial_sensor.py", "(increments.values - self.bias * dt).T).T", "(increments.values - self.bias).T).T", ["C14"], "violation"),
 ("sim_noise_scaling", "pyins/inertial_sensor.py", "result += self.noise * dt**-0.5 * self.rng.randn(*readings.shape)", "result += self.noise * self.rng.randn(*readings.shape)", ["C14"], "violation"),
 ("kalman_joseph_sign", "pyins/kalman.py", "U.dot(P).dot(U.T) + K.dot(R).dot(K.T)", "U.dot(P).dot(U.T) - K.dot(R).dot(K.T)", ["C07"], "violation"),
 ("kalman_simple_form", "pyins/kalman.py", "U.dot(P).dot(U.T) + K.dot(R).dot(K.T)", "U.dot(P)", ["C07"], "quiet-or-drift"),
 ("vanloan_sign", "pyins/kalman.py", "    H[n:, n:] = -F.T", "    H[n:, n:] = F.T", ["C08"], "violation"),
 ("vanloan_no_doubling_compose", "pyins/kalman.py", "        Qd = Phi @ Qd @ Phi.T + Qd\n", "        Qd = Phi @ Qd @ Phi.T\n", ["C08"], "violation"),
 ("diff_sign_dropped", "pyins/transform.py", "    difference = result_sign * (first - second)", "    difference = first - second", ["C18"], "violation"),
 ("diff_swap_inverted", "pyins/transform.py", "if np.median(np.diff(first.index)) < np.median(np.diff(second.index)):", "if np.median(np.diff(first.index)) > np.median(np.diff(second.index)):", ["C18"], "violation"),
 ("wrap_ge_180", "pyins/util.py", "        result[result > 180] -= 360", "        result[result >= 180] -= 360", ["C18"], "violation"),
 ("translate_copy_removed", "pyins/transform.py", "    result = trajectory.copy()\n    result[LLA_COLS] = perturb_lla(", "    result = trajectory\n    result[LLA_COLS] = perturb_lla(", ["C19"], "violation"),
 ("sim_rng_bypassed", "pyins/sim.py", "    rng = check_random_state(rng)\n    result = pd.Series(index=TRAJECTORY_ERROR_COLS)", "    rng = np.random\n    result = pd.Series(index=TRAJECTORY_ERROR_COLS)", ["C19"], "violation"),
 ("increments_column_renamed", "pyins/strapdown.py", "columns=['dt', 'theta_x', 'theta_y', 'theta_z',\n                                 'dv_x', 'dv_y', 'dv_z']", "columns=['dt', 'theta_x', 'theta_y', 'theta_z',\n                                 'dv_x', 'dv_y', 'dvz']", ["C19"], "violation"),
 ("ff_innov_stamped_with_epoch", "pyins/filters.py", "                    innovations_times[name].append(time)\n\n            measurement_time_index += 1",
  "                    innovations_times[name].append(measurement_time)\n\n            measurement_time_index += 1", ["C10"], "quiet-or-drift"),   # C10 does not say which stamp a feedforward innovation row carries
 ("nedvel_2d_slice_removed", "pyins/measurements.py", "        H = error_model.ned_velocity_error_jacobian(pva, self.imu_to_antenna_b)\n        R = self.R\n        if not error_model.with_altitude:\n            z = z[:2]",
  "        H = error_model.ned_velocity_error_jacobian(pva, self.imu_to_antenna_b)\n        R = self.R\n        if not error_model.with_altitude:\n            z = z[:3]", ["C13"], "violation"),
 ("resample_clip_strict", "pyins/transform.py", "    times = times[(times >= state.index[0]) & (times <= state.index[-1])]", "    times = times[(times > state.index[0]) & (times <= state.index[-1])]", ["C18"], "violation"),
 ("est_get_keeps_nominal", "pyins/inertial_sensor.py", "                estimates.append(self.transform[axis_out, axis_in] -\n                                 (1 if axis_out == axis_in else 0))", "                estimates.append(self.transform[axis_out, axis_in])", ["C14"], "violation"),
 ("fb_sd_rows_at_batch_end", "pyins/filters.py", "        times_result.append(time)\n        gyro_result.append(gyro_model.get_estimates())", "        times_result.append(time + 0 * time_step)\n        gyro_result.append(gyro_model.get_estimates())", ["C09"], "quiet-or-drift"),
 # ---- third round: C06 (MeasModel), C11 / C12 dataflow (FilterDataflow clauses, JointSystem terms)
 ("pos_residual_args_swapped", "pyins/measurements.py", "        z = transform.compute_lla_difference(pva[LLA_COLS],\n                                             self.data.loc[time, LLA_COLS])",
  "        z = transform.compute_lla_difference(self.data.loc[time, LLA_COLS],\n                                             pva[LLA_COLS])", ["C06"], "violation"),
 ("body_H_not_transposed", "pyins/error_model.py", "        result[:, self.DV] = mat_nb.transpose()", "        result[:, self.DV] = mat_nb", ["C06"], "violation"),
 ("body_R_is_sd", "pyins/measurements.py", "        super(BodyVelocity, self).__init__(data[['VX', 'VY', 'VZ']])\n        self.R = sd**2 * np.eye(3)", "        super(BodyVelocity, self).__init__(data[['VX', 'VY', 'VZ']])\n        self.R = sd * np.eye(3)", ["C06"], "violation"),
 ("pos_lever_H_sign", "pyins/error_model.py", "            result[:, self.PHI] = util.skew_matrix(mat_nb @ imu_to_antenna_b)", "            result[:, self.PHI] = -util.skew_matrix(mat_nb @ imu_to_antenna_b)", ["C06"], "violation"),
 ("t32_sign", "pyins/error_model.py", "        result[:, 5, 4] = VE\n        result[:, 5, 5] = -VN", "        result[:, 5, 4] = -VE\n        result[:, 5, 5] = VN", ["C06"], "violation"),
 ("meas_lookup_isclose", "pyins/measurements.py", "    def compute_matrices(self, time, pva, error_model):\n        if time not in self.data.index:\n            return None\n\n        z = pva[VEL_COLS] - self.data.loc[time, VEL_COLS]",
  "    def compute_matrices(self, time, pva, error_model):\n        near = np.flatnonzero(np.isclose(np.asarray(self.data.index, dtype=float), time))\n        if len(near) == 0:\n            return None\n        time = self.data.index[near[0]]\n\n        z = pva[VEL_COLS] - self.data.loc[time, VEL_COLS]", ["C06"], "violation"),
 ("ff_qd_dropped", "pyins/filters.py", "        x = Phi @ x\n        P = Phi @ P @ Phi.transpose() + Qd", "        x = Phi @ x\n        P = Phi @ P @ Phi.transpose()", ["C11"], "violation"),
 ("ff_x_not_propagated", "pyins/filters.py", "        x = Phi @ x\n        P = Phi @ P @ Phi.transpose() + Qd", "        P = Phi @ P @ Phi.transpose() + Qd", ["C11"], "violation"),
 ("ff_P_association_changed", "pyins/filters.py", "        x = Phi @ x\n        P = Phi @ P @ Phi.transpose() + Qd", "        x = Phi @ x\n        P = Phi @ (P @ Phi.transpose()) + Qd", ["C11"], "quiet-or-drift"),
 ("joint_fig_fia_swapped", "pyins/filters.py", "    F[ins_block, gyro_block] = Fig @ Hg", "    F[ins_block, gyro_block] = Fia @ Hg", ["C11"], "violation"),
 ("joint_q_order", "pyins/filters.py", "q = np.hstack((gyro_model.v, accel_model.v, gyro_model.q, accel_model.q))", "q = np.hstack((gyro_model.v, gyro_model.q, accel_model.v, accel_model.q))", ["C11"], "violation"),
 ("ff_comp_lon_radius", "pyins/filters.py", "    trajectory.lon -= error_nav.east / rp * transform.RAD_TO_DEG", "    trajectory.lon -= error_nav.east / rn * transform.RAD_TO_DEG", ["C11"], "violation"),
 ("ff_comp_velocity_sign", "pyins/filters.py", "    trajectory[VEL_COLS] -= error_nav[VEL_COLS]", "    trajectory[VEL_COLS] += error_nav[VEL_COLS]", ["C11"], "violation"),
 ("p0_level_azimuth_swapped", "pyins/filters.py", "    P_pva[error_model.DHEADING, error_model.DHEADING] = azimuth_sd ** 2", "    P_pva[error_model.DHEADING, error_model.DHEADING] = level_sd ** 2", ["C11", "C12"], "violation"),
 ("fb_P_without_noise", "pyins/filters.py", "        P = Phi @ P @ Phi.transpose() + Qd\n\n    P_result = np.asarray(P_result)", "        P = Phi @ P @ Phi.transpose()\n\n    P_result = np.asarray(P_result)", ["C12"], "violation"),
 ("fb_gyro_table_after_integrate", "pyins/filters.py", "            error_model.correct_pva(integrator.get_pva(), x[ins_block]))\n            gyro_model.update_estimates(x[gyro_block])",
  "            error_model.correct_pva(integrator.get_pva(), x[ins_block]))\n            gyro_model.update_estimates(0.5 * x[gyro_block])", ["C12"], "violation"),
 ("c05_vel_skew_sign", "pyins/error_model.py", "        result[np.ix_(samples, cls.DV_OUT, cls.PHI)] = util.skew_matrix(\n            trajectory[VEL_COLS])", "        result[np.ix_(samples, cls.DV_OUT, cls.PHI)] = -util.skew_matrix(\n            trajectory[VEL_COLS])", ["C05"], "violation"),
 ("c05_euler_jacobian_sign", "pyins/error_model.py", "    result[:, 1, 0] = sin[:, 2]", "    result[:, 1, 0] = -sin[:, 2]", ["C05"], "violation"),
 ("c05_rad_to_deg_dropped", "pyins/error_model.py", "    result *= transform.RAD_TO_DEG\n", "", ["C05"], "violation"),
 ("c05_correct_velocity_rotation_transposed", "pyins/error_model.py", "        velocity_n = mat_tp @ (pva[VEL_COLS] - x[self.DV])", "        velocity_n = mat_tp.T @ (pva[VEL_COLS] - x[self.DV])", ["C05"], "violation"),
 ("c05_correct_position_sign", "pyins/error_model.py", "        lla = transform.perturb_lla(pva[LLA_COLS], -x[self.DR])", "        lla = transform.perturb_lla(pva[LLA_COLS], x[self.DR])", ["C05"], "violation"),
 ("c05_inverse_via_solve", "pyins/error_model.py", "        result = np.linalg.inv(self._transform_to_output_3d(pva))", "        result = np.linalg.solve(self._transform_to_output_3d(pva), np.eye(9))", ["C05"], "quiet-or-drift"),
 ("c17_taylor_cos_coefficient", "pyins/_numba_integrate.py", "        cos = 1 - norm2 / 2 + norm4 / 24", "        cos = 1 - norm2 / 2 + norm4 / 12", ["C17"], "violation"),
 ("c17_rodrigues_sign", "pyins/_numba_integrate.py", "    mat[0, 1] = k2 * rv[0] * rv[1] - k1 * rv[2]", "    mat[0, 1] = k2 * rv[0] * rv[1] + k1 * rv[2]", ["C17"], "violation"),
 ("c17_euler_intrinsic", "pyins/transform.py", "    return Rotation.from_euler('xyz', rph, degrees=True).as_matrix()", "    return Rotation.from_euler('XYZ', rph, degrees=True).as_matrix()", ["C17"], "violation"),
 ("c17_small_angle_threshold", "pyins/_numba_integrate.py", "    if norm2 > 1e-6:", "    if norm2 > 1e-2:", ["C17"], "violation"),
 ("c17_threshold_ge", "pyins/_numba_integrate.py", "    if norm2 > 1e-6:", "    if norm2 >= 1e-6:", ["C17"], "quiet-or-drift"),
 ("c15_coning_sixth", "pyins/strapdown.py", "        coning = np.cross(gyro[:-1], gyro[1:]) / 12", "        coning = np.cross(gyro[:-1], gyro[1:]) / 6", ["C15"], "violation"),
 ("c15_sculling_order", "pyins/strapdown.py", "        sculling = (np.cross(gyro[:-1], accel[1:]) +\n                    np.cross(accel[:-1], gyro[1:])) / 12", "        sculling = (np.cross(gyro[:-1], accel[1:]) +\n                    np.cross(gyro[1:], accel[:-1])) / 12", ["C15"], "violation"),
 ("c15_rotation_compensation_dropped", "pyins/strapdown.py", "    dv = accel_increment + sculling + 0.5 * np.cross(gyro_increment, accel_increment)", "    dv = accel_increment + sculling", ["C15"], "violation"),
 ("c15_stamp_previous_sample", "pyins/strapdown.py", "    return pd.DataFrame(data=np.hstack((dt, theta, dv)), index=imu.index[1:],", "    return pd.DataFrame(data=np.hstack((dt, theta, dv)), index=imu.index[:-1],", ["C15"], "violation"),
 ("c15_rate_coning_dt_power", "pyins/strapdown.py", "        coning = np.cross(a_gyro, b_gyro) * dt ** 2 / 12", "        coning = np.cross(a_gyro, b_gyro) * dt / 12", ["C15"], "violation"),
 ("c15_refactor_half_b", "pyins/strapdown.py", "        gyro_increment = (a_gyro + 0.5 * b_gyro) * dt", "        gyro_increment = 0.5 * (gyro[:-1] + gyro[1:]) * dt", ["C15"], "quiet-or-drift"),
 ("c16_meridian_radius", "pyins/earth.py", "    rn = re * (1 - E2) / x", "    rn = re * (1 - E2) / x ** 0.5", ["C16"], "violation"),
 ("c16_curvature_radius_swapped", "pyins/earth.py", "    result[:, 1, 0] = -1 / rn", "    result[:, 1, 0] = -1 / re", ["C16"], "violation"),
 ("c16_centrifugal_sign", "pyins/earth.py", "    g0_g[0] = RATE**2 * rp * sin_lat", "    g0_g[0] = -RATE**2 * rp * sin_lat", ["C16"], "violation"),
 ("c16_rate_vertical_sign", "pyins/earth.py", "    result[:, 2] = -RATE * np.sin(np.deg2rad(lat))", "    result[:, 2] = RATE * np.sin(np.deg2rad(lat))", ["C16"], "violation"),
 ("c16_polar_radius", "pyins/transform.py", "    r_e[2] = ((1 - earth.E2) * re + alt) * sin_lat", "    r_e[2] = (re + alt) * sin_lat", ["C16"], "violation"),
 ("c16_perturb_east_radius", "pyins/transform.py", "    lla[:, 1] += np.rad2deg(dr_n[:, 1] / rp)", "    lla[:, 1] += np.rad2deg(dr_n[:, 1] / rn)", ["C16", "C18"], "violation"),
 ("c16_frame_pole_sign", "pyins/transform.py", "        return Rotation.from_euler('ZY', [lon, -90 - lat], degrees=True).as_matrix()", "        return Rotation.from_euler('ZY', [lon, 90 - lat], degrees=True).as_matrix()", ["C16"], "violation"),
 ("c16_gravity_height_term", "pyins/earth.py", "            * (1 - 2 * alt / A))", "            * (1 - 2 * alt / A) ** 1.0)", ["C16"], "quiet-or-drift"),
 ("c03_inertial_longitude_rate_dropped", "pyins/sim.py", "    lla_inertial[:, 1] += np.rad2deg(earth.RATE) * time\n", "", ["C03"], "violation"),
 ("c03_gravitation_added", "pyins/sim.py", "        accel = util.mv_prod(mat_ib, v_i_spline(time, 1) - g_i, at=True)", "        accel = util.mv_prod(mat_ib, v_i_spline(time, 1) + g_i, at=True)", ["C03"], "violation"),
 ("c03_increment_gravity_slope_dropped", "pyins/sim.py", "        e = a_s.c[0] - np.diff(g_i, axis=0) / dt", "        e = a_s.c[0]", ["C03"], "violation"),     # first labelled quiet by mistake: in the inertial frame gravitation rotates with the Earth, dropping its slope costs 5e-6 g
 ("c03_velocity_form_coriolis_sign", "pyins/sim.py", "        v_i = util.mv_prod(mat_in, velocity_n) + np.cross(earth_rate_i, r_i)", "        v_i = util.mv_prod(mat_in, velocity_n) - np.cross(earth_rate_i, r_i)", ["C03"], "violation"),
 # C04 (error dynamics): the kinematic skeleton (exact) and the Earth-rate blocks (numeric predicates)
 ("c04_bgyro_velocity_coupling_sign", "pyins/error_model.py", "        B_gyro[np.ix_(samples, self.DV, [0, 1, 2])] = util.mm_prod(V_skew, mat_nb)", "        B_gyro[np.ix_(samples, self.DV, [0, 1, 2])] = -util.mm_prod(V_skew, mat_nb)", ["C04"], "violation"),
 ("c04_bgyro_attitude_sign", "pyins/error_model.py", "        B_gyro[np.ix_(samples, self.PHI, [0, 1, 2])] = -mat_nb", "        B_gyro[np.ix_(samples, self.PHI, [0, 1, 2])] = mat_nb", ["C04"], "violation"),
 ("c04_baccel_transposed", "pyins/error_model.py", "        B_accel[np.ix_(samples, self.DV, [0, 1, 2])] = mat_nb", "        B_accel[np.ix_(samples, self.DV, [0, 1, 2])] = np.swapaxes(mat_nb, -1, -2)", ["C04"], "violation"),
 ("c04_gravity_block_sign", "pyins/error_model.py", "        F[np.ix_(samples, self.DV, self.PHI)] = -util.skew_matrix(g_n)", "        F[np.ix_(samples, self.DV, self.PHI)] = util.skew_matrix(g_n)", ["C04"], "violation"),
 ("c04_position_attitude_block_dropped", "pyins/error_model.py", "        F[np.ix_(samples, self.DR, self.PHI)] = V_skew", "        F[np.ix_(samples, self.DR, self.PHI)] = 0 * V_skew", ["C04"], "violation"),
 ("c04_coriolis_factor_two_dropped", "pyins/error_model.py", "        F[np.ix_(samples, self.DV, self.DV)] = -util.skew_matrix(2 * Omega_n + rho_n)", "        F[np.ix_(samples, self.DV, self.DV)] = -util.skew_matrix(Omega_n + rho_n)", ["C04"], "violation"),
 ("c04_attitude_velocity_block_dropped", "pyins/error_model.py", "        F[np.ix_(samples, self.PHI, self.DV)] = R", "        F[np.ix_(samples, self.PHI, self.DV)] = 0 * R", ["C04"], "violation"),
 ("c04_gravity_gradient_sign", "pyins/error_model.py", "        F[:, self.DV3, self.DR3] = 2 * earth.gravity(trajectory.lat, 0) / earth.A", "        F[:, self.DV3, self.DR3] = -2 * earth.gravity(trajectory.lat, 0) / earth.A", ["C04"], "violation"),
 ("c04_attitude_block_transport_rate_dropped", "pyins/error_model.py", "        F[np.ix_(samples, self.PHI, self.PHI)] = (-util.skew_matrix(rho_n + Omega_n) +", "        F[np.ix_(samples, self.PHI, self.PHI)] = (-util.skew_matrix(Omega_n) +", ["C04"], "violation"),
 ("c04_propagate_sensor_term_sign", "pyins/error_model.py", "        x[i + 1] = Phi[i].dot(x[i]) + delta_sensor[i] * dt[i]", "        x[i + 1] = Phi[i].dot(x[i]) - delta_sensor[i] * dt[i]", ["C04"], "violation"),
 ("c04_propagate_initial_error_not_transformed", "pyins/error_model.py", "    x0 = error_model.transform_to_internal(trajectory.iloc[0]) @ pva_error.values", "    x0 = error_model.transform_to_internal(trajectory.iloc[-1]) @ pva_error.values", ["C04"], "violation"),
 ("c04_propagate_trapezoid_rewritten", "pyins/error_model.py", "    Phi = 0.5 * (Fi[1:] + Fi[:-1]) * dt.reshape(-1, 1, 1)", "    Phi = (0.5 * Fi[1:] + 0.5 * Fi[:-1]) * dt.reshape(-1, 1, 1)", ["C04"], "quiet-or-drift"),
 # ---- fifth round: C01 (StrapdownStep: consistency of the one-step map, convergence)
 ("step_coriolis_once", "pyins/_numba_integrate.py", "        velocity_n[j + 1, 0] = V1 + dv1 + (- (chi2 + Omega2) * V3\n                                           + (chi3 + Omega3) * V2",
  "        velocity_n[j + 1, 0] = V1 + dv1 + (- (chi2 + Omega2) * V3\n                                           + chi3 * V2", ["C01"], "violation"),
 ("step_rn_for_re", "pyins/_numba_integrate.py", "        V3 = 0.5 * (V3 + velocity_n[j + 1, 2])\n        rho1 = V2 / re\n        rho2 = -V1 / rn", "        V3 = 0.5 * (V3 + velocity_n[j + 1, 2])\n        rho1 = V2 / re\n        rho2 = -V1 / re", ["C01"], "violation"),
 ("step_lon_without_cos", "pyins/_numba_integrate.py", "transform.RAD_TO_DEG * rho1 / cos_lat * dt", "transform.RAD_TO_DEG * rho1 * dt", ["C01"], "violation"),
 ("step_frame_rotation_sign", "pyins/_numba_integrate.py", "        xi[2] = -chi3 * dt", "        xi[2] = chi3 * dt", ["C01"], "violation"),
 ("step_gravity_at_start_altitude", "pyins/_numba_integrate.py", "gravity(lat, alt - 0.5 * V3 * dt)", "gravity(lat, alt)", ["C01"], "quiet-or-drift"),   # a second-order term: still consistent, still convergent
 ("step_position_from_start_velocity", "pyins/_numba_integrate.py", "        V1 = 0.5 * (V1 + velocity_n[j + 1, 0])\n        V2 = 0.5 * (V2 + velocity_n[j + 1, 1])\n        V3 = 0.5 * (V3 + velocity_n[j + 1, 2])\n", "", ["C01"], "quiet-or-drift"),   # Euler instead of trapezoid: first order, but converges - C01 does not state an order
 ("step_sculling_half_dropped", "pyins/_numba_integrate.py", "                                           - 0.5 * (chi2 * dv3 - chi3 * dv2)\n", "", ["C01"], "quiet-or-drift"),
 ("step_gravity_height_factor", "pyins/_numba_integrate.py", "(1 - 2 * alt / earth.A))", "(1 - alt / earth.A))", ["C01"], "violation"),   # the kernel's own copy of gravity disagrees with the Earth model above sea level
 # ---- fifth round: the increment the feedback filter hands to predict at a measurement epoch (dataflow clause pred_ok)
 ("fb_predict_uncorrected", "pyins/filters.py", "                integrator.predict((measurement_time - time) / increment['dt'] *\n                                   increment),",
  "                integrator.predict((measurement_time - time) / increment['dt'] *\n                                   increments.iloc[increments_index]),", ["C12"], "violation"),
 ("fb_predict_half_fraction", "pyins/filters.py", "                integrator.predict((measurement_time - time) / increment['dt'] *\n                                   increment),",
  "                integrator.predict(0.5 * (measurement_time - time) / increment['dt'] *\n                                   increment),", ["C12"], "violation"),
]


def sh(cmd, **kw):
    return subprocess.run(cmd, shell=True, capture_output=True, text=True, **kw)


def main():
    names = set(sys.argv[1:])
    sh("git -C /repo worktree remove --force %s" % WT)
    r = sh("git -C /repo worktree add -f %s HEAD --detach" % WT)
    if r.returncode:
        print(r.stderr); sys.exit(2)
    out_path = os.path.join(ROOT, "selftest", "hand_mutants_results.json")
    results = json.load(open(out_path)) if os.path.exists(out_path) else {}
    try:
        for name, f, old, new, checks, expect in M:
            if names and name not in names:
                continue
            path = os.path.join(WT, f)
            src = open(path).read()
            if src.count(old) != 1:
                results[name] = dict(error="pattern occurs %d times" % src.count(old))
                print(name, results[name]); continue
            open(path, "w").write(src.replace(old, new))
            imp = sh("cd %s && /venv/bin/python -c 'import pyins.filters, pyins.sim'" % WT)
            entry = dict(file=f, expect=expect, imports=imp.returncode == 0, checks={})
            for c in checks:
                ev = tempfile.mkdtemp(prefix="vev_")
                t0 = time.time()
                r = sh("cd %s && VERIF_REPO=%s VERIF_EVIDENCE_DIR=%s timeout 1500 ./check %s --tier quick" % (ROOT, WT, ev, c))
                lines = [l for l in r.stdout.splitlines() if l.startswith(("VIOLATION", "MODEL-DRIFT", "OK ", "MACHINERY", "  detail"))]
                entry["checks"][c] = dict(exit=r.returncode, wall_s=round(time.time() - t0, 1), violations=sum(l.startswith("VIOLATION") for l in lines),
                                          drift=sum(l.startswith("MODEL-DRIFT") for l in lines), first=[l[:300] for l in lines if l.startswith("  detail")][:1])
                sh("rm -rf %s" % ev)
            sh("git -C %s checkout -- ." % WT)
            ok = all((v["exit"] == 1) if expect == "violation" else (v["exit"] == 0) for v in entry["checks"].values())
            entry["as_expected"] = ok
            results[name] = entry
            print(name, expect, {c: (v["exit"], v["violations"], v["drift"]) for c, v in entry["checks"].items()}, "OK" if ok else "UNEXPECTED", flush=True)
            json.dump(results, open(out_path, "w"), indent=1)
    finally:
        sh("git -C /repo worktree remove --force %s" % WT)


if __name__ == "__main__":
    main()
